"""Running the real inovesa binary and reading its results (offline oracles' input)."""
import json
import math
import os
import shutil
import struct
import subprocess
import tempfile

import numpy as np

from . import build, core


def f32(x):
    return struct.unpack("f", struct.pack("f", x))[0]


def fmt(v):
    if isinstance(v, bool):
        return "true" if v else "false"
    if isinstance(v, float):
        return repr(v)
    return str(v)


def to_args(opts):
    """dict -> argv (long option names).  BunchCurrent (multitoken) is put last-but-one."""
    args = []
    tail = []
    for k, v in opts.items():
        if k == "BunchCurrent":
            vs = v if isinstance(v, (list, tuple)) else [v]
            tail = ["--BunchCurrent"] + [fmt(float(x)) for x in vs]
            continue
        args += ["--" + k, fmt(v)]
    # multitoken option must be followed by another option or be last: put it last
    return args + tail


class H5:
    def __init__(self, path, keep_dir=None):
        tool = build.build_tool("h5tool")
        d = keep_dir or tempfile.mkdtemp(prefix="h5x-", dir=os.path.dirname(path) or ".")
        os.makedirs(d, exist_ok=True)
        r = core.run_cmd([tool, "export", path, d], timeout=300)
        if r["rc"] != 0:
            shutil.rmtree(d, ignore_errors=True)
            raise IOError("cannot export %s: rc=%s %s" % (path, r["rc"], r["err"][-300:]))
        with open(os.path.join(d, "manifest.json")) as fh:
            man = json.load(fh)
        self.d = {}
        self.attrs = {}
        self.status = {}
        for name, e in man.items():
            self.attrs[name] = {k: (float(v) if not isinstance(v, str) else float(v.replace("inf", "inf")))
                                for k, v in e.get("attrs", {}).items()}
            if e["kind"] == "dataset":
                self.status[name] = e["status"]
                try:
                    self.d[name] = np.load(os.path.join(d, e["file"]))
                except Exception:
                    self.status[name] = "npyerror"
        if not keep_dir:
            shutil.rmtree(d, ignore_errors=True)

    def __contains__(self, k):
        return k in self.d

    def __getitem__(self, k):
        return self.d[k]

    def params(self):
        return self.attrs.get("/Info/Parameters", {})


def run_inovesa(variant, opts, cwd, xdg, timeout=180, env=None, extra_args=(), config=None, inherit_sigint_ignored=False, stack_kib=None, stdout_to=None):
    """Run the program (stdout_to: see core.run_cmd); opts dict of long options. -c /dev/null unless config given.
    stack_kib: soft limit of the main thread's stack (ulimit -s) the program is started with.
    inherit_sigint_ignored: start it the way a non-interactive shell starts a background job (SIGINT disposition 'ignore' inherited)."""
    exe = os.path.join(build.build(variant), "inovesa")
    # config=False: no --config option at all (the program then looks for ./default.cfg, which may be absent)
    argv = [exe] + ([] if config is False else ["--config", config if config else "/dev/null"]) + to_args(opts) + list(extra_args)
    if inherit_sigint_ignored:
        argv = ["/bin/sh", "-c", "trap '' INT; exec \"$0\" \"$@\""] + argv
    if stack_kib:
        argv = ["/bin/sh", "-c", "ulimit -S -s %d; exec \"$0\" \"$@\"" % stack_kib] + argv
    e = dict(core.SAN_ENV)
    e["XDG_DATA_HOME"] = xdg
    e["HOME"] = cwd
    # every run gets its own glibc allocator fill byte (freshly malloc'd and freed memory is filled with it): a result that depends on
    # uninitialised or freed heap memory then differs between runs that are compared bit for bit, and is garbage where an oracle looks at it
    e["MALLOC_PERTURB_"] = str(1 + core.rng_u64("perturb", cwd, repr(sorted(opts.items()))) % 254)
    if env:
        e.update({k: v for k, v in env.items() if v is not None and not k.startswith("_")})
    unset = [k for k, v in (env or {}).items() if v is None]
    if unset:
        # a value of None means "not in the environment of the process" (run_cmd starts from os.environ, so it has to be removed explicitly)
        argv = ["/usr/bin/env"] + ["-u" + k for k in unset] + argv
    if env and env.get("_umask"):
        argv = ["/bin/sh", "-c", "umask %s; exec \"$0\" \"$@\"" % env["_umask"]] + argv
    r = core.run_cmd(argv, cwd=cwd, env=e, timeout=timeout, stdout_to=stdout_to)
    if r["hang"]:
        # a watchdog firing on a loaded machine is inconclusive: re-run once with twice the budget before calling it a hang
        r = core.run_cmd(argv, cwd=cwd, env=e, timeout=2 * timeout, stdout_to=stdout_to)
        r["retried_after_timeout"] = True
    r["argv"] = argv
    return r


def envmix(r, p=0.5):
    """A process environment that must not matter (DESIGN 14, eleventh round): with probability p returns a dict for run_inovesa(env=...) that
    changes things the program is started with but that are not parameters of the simulation - HOME absent or somewhere odd (XDG_DATA_HOME, which
    selects the FFT wisdom, is left alone), a locale name that does not exist on this machine / the C.utf8 locale, a time zone, a terminal type and
    width, a restrictive umask, XDG_CONFIG_HOME.  The unchanged tree reads none of these (FSPath reads HOME only for a path that starts with '~').
    Returns (env or None, label)."""
    if not r.chance(p):
        return None, "plain"
    e, lab = {}, []
    k = r.randint(0, 7)
    if k in (0, 1):
        e["HOME"] = None; lab.append("HOME unset")
    elif k == 2:
        e["HOME"] = "/nonexistent/home dir"; lab.append("HOME nonexistent")
    if k in (1, 3, 4):
        loc = r.choice(["de_DE.UTF-8", "fr_FR@euro", "C.utf8", "tr_TR.UTF-8"])
        e[r.choice(["LC_ALL", "LANG", "LC_NUMERIC"])] = loc; lab.append("locale " + loc)
    if k in (4, 5):
        e["TZ"] = r.choice(["Pacific/Kiritimati", "America/St_Johns", ":/nonexistent", "UTC-13:45"]); lab.append("TZ")
    if k in (5, 6):
        e["TERM"] = r.choice(["dumb", "xterm-256color"]); e["COLUMNS"] = r.choice(["1", "20", "500"]); lab.append("TERM/COLUMNS")
    if k in (6, 7):
        e["_umask"] = r.choice(["077", "027"]); lab.append("umask")
    if k == 7:
        e["XDG_CONFIG_HOME"] = "/nonexistent/cfg"; e["USERPROFILE"] = "/nonexistent/profile"; lab.append("XDG_CONFIG_HOME")
    return e, "+".join(lab)


def program_outcome_key(r):
    """None if the process ended by itself with status 0/1 and no sanitizer report, else a violation (key, what)."""
    if r["hang"]:
        return ("hang", "process did not terminate (watchdog)")
    san = core.classify_sanitizer(r["err"])
    if san:
        return san
    if r["rc"] is not None and r["rc"] < 0:
        return ("signal:%d" % (-r["rc"]), "process killed by signal %d" % (-r["rc"]))
    if r["rc"] not in (0, 1):
        # uncaught C++ exception -> SIGABRT shows as signal; other exit codes are the sanitizers' (98/99)
        return ("exit:%s" % r["rc"], "unexpected exit status %s" % r["rc"])
    return None


def laststep(steps, T):
    """main: uint32 laststep = ceil(steps * float(T)) with steps double, rotations float"""
    return int(math.ceil(steps * f32(T)))


def simpson_weights(n, delta):
    """the quadrature weights the code base defines: delta/3*(1,4,2,4,...,1) (pattern continues for odd/even n alike)"""
    w = np.empty(n, dtype=np.float64)
    w[0] = 1
    dc = 1.0
    for x in range(1, n - 1):
        w[x] = 3.0 + dc
        dc = -dc
    w[n - 1] = 1
    return w * (delta / 3.0)


def sprinkle(r, o, wd=None, clamp_ok=False, padding_ok=True, cutoff_ok=True, tracking_ok=True):
    """Adds options that must not matter to the quantity a check looks at ("nuisance" options), each with a small probability, so that
    the rarely used branches of main() are part of every program-level workload: tracking model without / with a tracking file, verbosity,
    cut-off frequency of the CSR output, padding of the transform, clamped interpolation (only where the oracle compares the code with
    itself: a limiter legitimately changes the physics).  Returns the list of what was added (for the evidence)."""
    added = []
    if "FPTrack" not in o and r.chance(0.2):
        o["FPTrack"] = r.choice([0, 1, 2]); added.append("FPTrack")
    if "verbose" not in o and r.chance(0.1):
        o["verbose"] = True; added.append("verbose")
    if cutoff_ok and "CutoffFreq" not in o and r.chance(0.15):
        o["CutoffFreq"] = r.choice([0.0, 1e10, 1e11]); added.append("CutoffFreq")
    if padding_ok and "padding" not in o and r.chance(0.15):
        o["padding"] = r.choice([2.0, 3.0, 4.0]); added.append("padding")
    if clamp_ok and "InterpolateClamped" not in o and r.chance(0.15):
        o["InterpolateClamped"] = True; added.append("InterpolateClamped")
    if tracking_ok and wd is not None and "tracking" not in o and r.chance(0.15):
        path = os.path.join(wd, "nuisance_trk.txt")
        with open(path, "w") as fh:
            for k in range(r.randint(1, 4)):
                fh.write("%.3f %.3f\n" % (r.uniform(-3, 3), r.uniform(-3, 3)))
        o["tracking"] = path; added.append("tracking")
    return added
