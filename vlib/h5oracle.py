"""Offline checker over one results file: every record must describe one instant consistently.
Used by C10 (full), C14 (consistency of interrupted files) and others."""
import math

import numpy as np

from . import physics, prog

TIME_DATASETS = ["/BunchLength/data", "/BunchPopulation/data", "/BunchPosition/data", "/BunchProfile/data",
                 "/CSR/Intensity/data", "/CSR/Spectrum/data", "/EnergyAverage/data", "/EnergyProfile/data",
                 "/EnergySpread/data", "/Particles/data"]


class FileReport:
    def __init__(self):
        self.viol = []     # (key, what, detail)
        self.res = {}      # name -> worst (value, tol)
        self.events = {}

    def v(self, key, what, **detail):
        self.viol.append((key, what, detail))

    def r(self, name, value, tol):
        cur = self.res.get(name)
        ratio = value / tol if tol > 0 else (0 if value == 0 else float("inf"))
        if value != value:
            ratio = float("inf")
        if cur is None or ratio > cur[2]:
            self.res[name] = (float(value), float(tol), ratio)
        return value <= tol

    def ev(self, name, n=1):
        self.events[name] = self.events.get(name, 0) + n

    def merge_into(self, ctx, witness=None, prefix="C10"):
        for key, what, detail in self.viol:
            w = dict(detail)
            if witness:
                w.update(witness)
            ctx.violation(key, what, w)
        for k, (val, tol, _) in self.res.items():
            ctx.residual(k, val / tol if tol > 0 else val, 1.0)
        for k, n in self.events.items():
            ctx.ev(k, n)


def expected_times(P, outstep, h5save, steps_done=None, aborted=False):
    """-> (list of output steps incl. final, list of phase-space steps).  steps_done: step reached."""
    last = P["laststep"] if steps_done is None else steps_done
    outs = []
    ps = []
    if h5save == 0:
        ps.append(0)
    nr = 0
    if outstep > 0:
        for s in range(0, last, outstep):
            outs.append(s)
            if h5save > 0 and nr % h5save == 0:
                ps.append(s)
            nr += 1
    outs.append(last)
    ps.append(last)
    return outs, ps


def check_structure(h, P, opts, rep, steps_done=None, pfx="C10"):
    """lengths and time axes.  Returns (out_steps, ps_steps) as found in the file (rounded)."""
    steps = P["steps"]
    if "/Info/AxisValues_t" not in h:
        rep.v(pfx + ":missing:/Info/AxisValues_t", "time axis missing")
        return None, None
    t = h["/Info/AxisValues_t"].astype(np.float64)
    nt = len(t)
    has_wake = opts.get("_has_wake", True)
    for ds in TIME_DATASETS + (["/WakePotential/data"] if has_wake else []):
        if ds not in h:
            rep.v(pfx + ":missing:" + ds, "dataset missing", dataset=ds)
            continue
        rep.ev("dataset_lengths_checked")
        if h[ds].shape[0] != nt:
            rep.v(pfx + ":len:" + ds, "time-indexed dataset does not have as many records as the time axis",
                  dataset=ds, records=int(h[ds].shape[0]), time_axis=nt)
    if not has_wake and "/WakePotential/data" in h and h["/WakePotential/data"].shape[0] != 0:
        rep.v(pfx + ":len:/WakePotential/data:unused", "wake potential has records although no impedance is used",
              records=int(h["/WakePotential/data"].shape[0]))
    tps = h["/PhaseSpace/axis0"].astype(np.float64)
    if h["/PhaseSpace/data"].shape[0] != len(tps):
        rep.v(pfx + ":len:/PhaseSpace/data", "phase-space records and their time axis differ in length",
              records=int(h["/PhaseSpace/data"].shape[0]), time_axis=len(tps))
    outs, pss = expected_times(P, int(opts.get("outstep", 100)), int(opts.get("SavePhaseSpace", 0)), steps_done)
    want_t = np.array([physics.f32(s / steps) for s in outs])
    want_ps = np.array([physics.f32(s / steps) for s in pss])
    if len(t) != len(want_t) or np.max(np.abs(t - want_t)) > 1e-6 * max(1.0, want_t[-1]):
        rep.v(pfx + ":time_axis", "time axis is not {0, outstep, 2*outstep, ...} + {final step} in synchrotron periods",
              got=[float(x) for x in t[:8]], want=[float(x) for x in want_t[:8]], n_got=len(t), n_want=len(want_t))
    if len(tps) != len(want_ps) or np.max(np.abs(tps - want_ps)) > 1e-6 * max(1.0, want_ps[-1]):
        rep.v(pfx + ":ps_time_axis", "phase-space time axis does not list exactly the saved subset",
              got=[float(x) for x in tps[:8]], want=[float(x) for x in want_ps[:8]], n_got=len(tps), n_want=len(want_ps))
    rep.ev("time_axes_checked")
    return np.rint(t * steps).astype(int), np.rint(tps * steps).astype(int)


def moments(profile, axis, delta, pop):
    """code base's definition: rectangle rule over the (Simpson) projection, normalised by the Simpson integral.
    Returns (mean, rms) ; rms is None when the second moment is not positive (no width defined)."""
    mean = np.sum(profile * axis) * delta / pop
    var = np.sum(profile * (axis - mean) ** 2) * delta / pop
    return mean, (math.sqrt(var) if var > 1e-9 else None)


def wake_reference(P, profiles, zre, zim, with_noise=False):
    """profiles (nb, n) -> wake (nb, n) in cells per step, absolute scale from the machine parameters"""
    N = P["wake_N"]
    n = P["n"]
    sp = P["spacing_bins"] if P["nbuckets"] > 1 else 0
    pad = np.zeros(N)
    for b, bk in enumerate(P["buckets"]):
        pad[bk * sp: bk * sp + n] = profiles[b]
    F = np.fft.rfft(pad)
    Z = (zre.astype(np.float64) + 1j * zim.astype(np.float64))
    Y = np.zeros(N // 2 + 1, dtype=complex)
    kmax = N // 2
    Y[:kmax] = Z[:kmax] * F[:kmax]
    W = np.fft.irfft(Y, N) * N
    scale = P["Ib"] * P["dt"] * physics.C / P["bl"] / (P["delta"] * P["sE"] * P["E0"]) / N
    out = np.zeros((len(P["buckets"]), n))
    for b, bk in enumerate(P["buckets"]):
        out[b] = scale * W[bk * sp: bk * sp + n]
    if with_noise:
        # rounding of the single-precision forward transform is absolute: ~2^-24 * max|F| in every bin, also in the high bins where
        # |F| is tiny and |Z| is large; after the inverse transform that is a noise floor of 2^-24*max|F|*sqrt(sum|Z|^2)*2*scale*sqrt(log2 N)
        # (unchanged code: observed 0.13 ... 0.28 of this for wakes of 1e-5 ... 4e-3 cells)
        noise = 2.0 ** -24 * float(np.max(np.abs(F))) * math.sqrt(float(np.sum(np.abs(Z[:kmax]) ** 2))) * 2 * scale * math.sqrt(math.log2(N))
        return out, noise
    return out


def check_file(h, opts, rep, steps_done=None, pfx="C10", full=True):
    """opts: the invocation's options (incl. BunchCurrent).  Adds violations to rep."""
    P = physics.derive({k: v for k, v in opts.items() if not k.startswith("_")})
    n, nb = P["n"], P["nb"]
    renorm = int(opts.get("RenormalizeCharge", 0))
    out_steps, ps_steps = check_structure(h, P, opts, rep, steps_done, pfx)
    if out_steps is None:
        return P
    delta = P["delta"]
    # ---- axes ----------------------------------------------------------------------
    qmin = physics.f32(physics.f32(P["qc"]) - physics.f32(P["pq"] / 2))
    pmin = physics.f32(physics.f32(P["pc"]) - physics.f32(P["pq"] / 2))
    want_z = qmin + np.arange(n) * delta
    want_e = pmin + np.arange(n) * delta
    az = h["/Info/AxisValues_z"].astype(np.float64)
    ae = h["/Info/AxisValues_E"].astype(np.float64)
    tol_ax = 4e-6 * P["pq"]
    if len(az) != n or not rep.r("axis_z_err", float(np.max(np.abs(az - want_z))) if len(az) == n else 9e9, tol_ax):
        rep.v(pfx + ":axis_z", "position axis does not hold the grid coordinates used", got0=float(az[0]), want0=float(want_z[0]))
    if len(ae) != n or not rep.r("axis_E_err", float(np.max(np.abs(ae - want_e))) if len(ae) == n else 9e9, tol_ax):
        rep.v(pfx + ":axis_E", "energy axis does not hold the grid coordinates used (min + i*delta of the energy axis)",
              got0=float(ae[0]), want0=float(want_e[0]), shift_x=float(P["o"]["PhaseSpaceShiftX"]), shift_y=float(P["o"]["PhaseSpaceShiftY"]))
    rep.ev("axes_checked", 2)
    # the coordinates the moments must refer to are the true grid coordinates
    q = want_z
    p = want_e
    ws = prog.simpson_weights(n, delta)
    # ---- unit attributes (independent formulas) ---------------------------------------
    if full:
        def unit(ds, name, want, rel=2e-6):
            got = h.attrs.get(ds, {}).get(name)
            rep.ev("unit_attributes_checked")
            if got is None or not rep.r("unit_rel_err", abs(got - want) / abs(want), rel):
                rep.v(pfx + ":unit:" + name + ":" + ds, "unit-conversion attribute differs from the value implied by the machine parameters",
                      dataset=ds, attribute=name, got=got, want=want)
        bl, dE = P["bl"], P["dE"]
        for ds in ("/Info/AxisValues_z", "/BunchLength/data", "/BunchPosition/data"):
            unit(ds, "Meter", bl)
            unit(ds, "Second", bl / physics.C)
        for ds in ("/Info/AxisValues_E", "/EnergySpread/data", "/EnergyAverage/data"):
            unit(ds, "ElectronVolt", dE)
        for ds in ("/Info/AxisValues_t", "/PhaseSpace/axis0"):
            unit(ds, "Second", 1.0 / P["fs"])
            unit(ds, "Turn", P["frev"] / P["fs"])
        unit("/BunchPopulation/data", "Ampere", P["Ib"])
        unit("/BunchPopulation/data", "Coulomb", P["Ib"] / P["frev"])
        unit("/BunchProfile/data", "AmperePerNBL", P["Ib"])
        unit("/BunchProfile/data", "CoulombPerNBL", P["Ib"] / P["frev"])
        unit("/PhaseSpace/data", "AmperePerNBLPerNES", P["Ib"])
        unit("/PhaseSpace/data", "CoulombPerNBLPerNES", P["Ib"] / P["frev"])
        unit("/CSR/Spectrum/data", "WattPerHertz", 2 * P["Ib"] ** 2 / P["frev"])
        unit("/CSR/Intensity/data", "Watt", 2 * P["Ib"] ** 2 / P["frev"] * physics.C / bl)
        unit("/Info/AxisValues_f", "Hertz", physics.C / bl)
        if opts.get("_has_wake", True):
            unit("/WakePotential/data", "Volt", delta * dE / P["revpart"])
        # frequency axis: i * (1/delta)/(N-1), first half
        Nr = P["padded_bins"]
        af = h["/Info/AxisValues_f"].astype(np.float64)
        wantf = np.arange(Nr // 2) * (1.0 / delta) / (Nr - 1)
        if len(af) != Nr // 2 or not rep.r("axis_f_rel_err", float(np.max(np.abs(af - wantf))) * delta if len(af) == Nr // 2 else 9e9, 4e-6):
            rep.v(pfx + ":axis_f", "frequency axis differs from i/(delta*(N-1))", n_got=len(af), n_want=Nr // 2)
    # ---- per record ----------------------------------------------------------------------
    prof = h["/BunchProfile/data"].astype(np.float64)
    eprof = h["/EnergyProfile/data"].astype(np.float64)
    pop = h["/BunchPopulation/data"].astype(np.float64)
    pos = h["/BunchPosition/data"].astype(np.float64)
    blen = h["/BunchLength/data"].astype(np.float64)
    eav = h["/EnergyAverage/data"].astype(np.float64)
    esp = h["/EnergySpread/data"].astype(np.float64)
    psd = h["/PhaseSpace/data"]
    nrec = min(len(out_steps), prof.shape[0], eprof.shape[0], pop.shape[0], pos.shape[0], blen.shape[0], eav.shape[0], esp.shape[0])
    if prof.shape[1:] != (nb, n) or psd.shape[1:] != (nb, n, n):
        rep.v(pfx + ":shape", "datasets do not have one row per bunch and one column per grid cell",
              profile_shape=list(prof.shape), ps_shape=list(psd.shape), nb=nb, n=n)
        return P
    ps_index = {int(s): i for i, s in enumerate(ps_steps[:psd.shape[0]])}
    finite_rec = []
    for rec in range(nrec):
        ok = all(np.all(np.isfinite(a[rec])) for a in (prof, eprof, pop, pos, eav))
        step = int(out_steps[rec])
        if ok and step in {int(s): 1 for s in ps_steps[:psd.shape[0]]}:
            ok = bool(np.all(np.isfinite(psd[list(ps_steps[:psd.shape[0]]).index(step)])))
        finite_rec.append(ok)
    for rec in range(nrec):
        step = int(out_steps[rec])
        if not finite_rec[rec]:
            rep.ev("nonfinite_records_skipped")   # a diverged run (NaN) has no instant to describe
            continue
        renorm_here = renorm > 0 and step % renorm == 0
        for b in range(nb):
            pr, ep = prof[rec, b], eprof[rec, b]
            pmax, emax = np.max(np.abs(pr)) + 1e-300, np.max(np.abs(ep)) + 1e-300
            if step in ps_index:
                g = psd[ps_index[step], b].astype(np.float64)
                want_pr = g @ ws
                want_ep = ws @ g
                rep.ev("projections_compared", 2)
                raw = float(np.max(np.abs(pr - want_pr))) / pmax
                if renorm_here:
                    # the program rescales the grid by share/measured charge *after* the position profile was taken
                    share = P["bunches"][b] / P["Ib"]
                    k = share / float(pop[rec, b]) if pop[rec, b] != 0 else 1.0
                    corr = float(np.max(np.abs(pr * k - want_pr))) / pmax
                    rep.ev("renormalised_records")
                    if abs(k - 1) > 0.05:
                        rep.ev("degenerate_records_skipped")      # most of the charge has left the grid: diverged run
                    elif not rep.r("profile_vs_phasespace_renorm_model", corr, 2e-5):
                        rep.v(pfx + ":profile", "stored bunch profile is not the projection of the stored phase space (even allowing for the renormalisation factor share/population)",
                              record=rec, step=step, bunch=b, rel_err=corr, factor=k)
                    elif raw > 2e-5:
                        rep.v(pfx + ":profile:renormalised_record", "profile stored before, phase space after the charge renormalisation of that step",
                              record=rec, step=step, bunch=b, rel_err=raw, factor=k)
                elif not rep.r("profile_vs_phasespace", raw, 2e-5):
                    rep.v(pfx + ":profile", "stored bunch profile is not the projection of the stored phase space", record=rec, step=step, bunch=b, rel_err=raw)
                if not rep.r("energy_profile_vs_phasespace", float(np.max(np.abs(ep - want_ep))) / emax, 2e-5):
                    rep.v(pfx + ":energy_profile", "stored energy profile is not the projection of the stored phase space", record=rec, step=step, bunch=b,
                          rel_err=float(np.max(np.abs(ep - want_ep)) / emax))
            want_pop = float(np.sum(pr * ws))
            pop_abs = float(np.sum(np.abs(pr) * ws))
            if not np.isfinite(want_pop) or pop_abs > 1.5 * abs(want_pop):
                # heavy cancellation between positive and negative lobes: a numerically destroyed (diverged) distribution;
                # single-precision sums of such data are not comparable at any fixed tolerance
                rep.ev("degenerate_records_skipped")
                continue
            rep.ev("moment_records_compared")
            if not rep.r("population_vs_profile", abs(pop[rec, b] - want_pop) / (abs(want_pop) + 1e-300), 2e-5):
                rep.v(pfx + ":population", "stored population is not the integral of the stored profile", record=rec, step=step, bunch=b, got=float(pop[rec, b]), want=want_pop)
            if not (abs(want_pop) > 1e-6) or not np.all(np.isfinite(pr)) or not np.all(np.isfinite(ep)):
                rep.ev("degenerate_records_skipped")
                continue
            for (nm, profile, axis, got_m, got_s, key, what) in (
                    ("position", pr, q, pos[rec, b], blen[rec, b], ":position_length", "stored bunch position/length are not the moments of the stored profile (over the true position axis)"),
                    ("energy", ep, p, eav[rec, b], esp[rec, b], ":energy_moments", "stored mean energy/spread are not the moments of the stored energy profile (over the true energy axis)")):
                # each profile is normalised by its own (Simpson) integral: the moments of *that* profile
                own = want_pop if nm == "position" else float(np.sum(profile * ws))
                if not np.isfinite(own) or not (abs(own) > 1e-6):
                    rep.ev("degenerate_records_skipped")
                    continue
                m, sd = moments(profile, axis, delta, own)
                if nm == "energy" and renorm_here and abs(own / want_pop - 1) >= 0.05:
                    rep.ev("degenerate_records_skipped")      # most of the charge has left the grid: diverged run (as for the position profile above)
                    continue
                if nm == "energy" and renorm_here and abs(own / want_pop - 1) > 1e-7 and sd is not None:
                    # known finding (same origin as ...:profile:renormalised_record): at a step that renormalises the charge the stored energy
                    # profile belongs to the rescaled grid while the energy moments were divided by the charge measured before the rescaling;
                    # the oracle verifies that exact model (mean*k, width*sqrt(k) with k = charge after / charge before) - anything else is
                    # reported under the ordinary key
                    kk = own / want_pop
                    tm = 2e-5 * max(P["pq"], float(np.sum(np.abs(profile * axis))) * delta / abs(own))
                    raw_bad = abs(got_m - m) > tm or abs(got_s - sd) > 2e-5 * max(P["pq"], sd)
                    model_ok = abs(got_m - m * kk) <= tm and abs(got_s - math.sqrt(max(kk * (sd * sd + (m - m * kk) ** 2), 0.0))) <= 2e-5 * max(P["pq"], sd) + 4e-5 * sd + 0.05 * abs(kk - 1) * (sd + abs(m))
                    rep.ev("renormalised_energy_moment_records")
                    if raw_bad and model_ok:
                        rep.v(pfx + ":energy_moments:renormalised_record", "energy moments divided by the charge measured before the renormalisation of that step",
                              record=rec, step=step, bunch=b, factor=kk, spread=float(got_s), spread_of_stored_profile=sd)
                        continue
                    if model_ok:
                        continue
                # single-precision accumulation: error relative to the sum of |terms| (matters only for diverged runs with huge cancellations)
                a1 = float(np.sum(np.abs(profile * axis))) * delta / abs(want_pop)
                a2 = float(np.sum(np.abs(profile) * (axis - m) ** 2)) * delta / abs(want_pop)
                tol_m = 2e-5 * max(P["pq"], a1)
                okp = rep.r(nm + "_mean_vs_profile", abs(got_m - m) / tol_m, 1.0)
                okl = True
                if sd is None:
                    rep.ev("degenerate_records_skipped")
                else:
                    tol_s = 2e-5 * max(P["pq"], sd) + 4e-5 * a2 / (2 * sd) + tol_m * abs(a1) / max(sd, 1e-30) * 0.0
                    okl = rep.r(nm + "_width_vs_profile", abs(got_s - sd) / tol_s, 1.0)
                if not okp or not okl:
                    rep.v(pfx + key, what, record=rec, step=step, bunch=b, mean=float(got_m), want_mean=m, width=float(got_s), want_width=sd)
    # ---- wake potential ------------------------------------------------------------------------
    if full and opts.get("_has_wake", True) and "/WakePotential/data" in h and "/Impedance/data/real" in h:
        wk = h["/WakePotential/data"].astype(np.float64)
        zre, zim = h["/Impedance/data/real"], h["/Impedance/data/imag"]
        N = P["wake_N"]
        if len(zre) != N // 2:
            rep.v(pfx + ":impedance_len", "stored impedance does not have half the transform length", got=len(zre), want=N // 2)
        elif wk.shape[1:] == (nb, n):
            for rec in range(min(nrec, wk.shape[0])):
                if not finite_rec[rec] or not np.all(np.isfinite(wk[rec])):
                    continue
                ref, noise = wake_reference(P, prof[rec], zre, zim, with_noise=True)
                mx = float(np.max(np.abs(ref))) + 1e-300
                rep.ev("wake_records_compared")
                err = float(np.max(np.abs(wk[rec] - ref))) / mx
                if not rep.r("wake_vs_convolution_over_tol", float(np.max(np.abs(wk[rec] - ref))) / (2e-5 * mx + 2.5 * noise), 1.0):
                    bad = int(np.argmax(np.max(np.abs(wk[rec] - ref), axis=1)))
                    rep.v(pfx + ":wake" + (":multibunch" if nb > 1 else ""), "stored wake potential is not the convolution of the stored profile with the stored impedance at the absolute scale implied by the parameters",
                          record=rec, rel_err=err, worst_bunch=bad, max_ref=mx)
                    break
    # ---- CSR ------------------------------------------------------------------------------------
    if "/CSR/Spectrum/data" in h and "/CSR/Intensity/data" in h:
        spec = h["/CSR/Spectrum/data"].astype(np.float64)
        inten = h["/CSR/Intensity/data"].astype(np.float64)
        Nr = P["padded_bins"]
        df = (1.0 / delta) / (Nr - 1)
        if spec.shape[1:] != (nb, Nr // 2):
            rep.v(pfx + ":csr_shape", "CSR spectrum does not have one row per bunch and N/2 columns", shape=list(spec.shape))
        else:
            for rec in range(min(nrec, spec.shape[0], inten.shape[0])):
                if not finite_rec[rec] or not np.all(np.isfinite(spec[rec])) or not np.all(np.isfinite(inten[rec])):
                    continue
                # form factors of the stored profiles (rows identify bunches independently of the impedance)
                F2 = []
                for b in range(nb):
                    pad = np.zeros(Nr)
                    pad[:n] = prof[rec, b]
                    F2.append(np.abs(np.fft.rfft(pad)[:Nr // 2]) ** 2)
                for b in range(nb):
                    rep.ev("csr_records_compared")
                    tot = df * float(np.sum(spec[rec, b]))
                    if max(abs(tot), abs(float(inten[rec, b]))) < 1e-30:
                        rep.ev("subnormal_csr_records_skipped")      # single-precision subnormals carry no precision
                        continue
                    if np.any(spec[rec, b] < 0):
                        rep.v(pfx + ":csr_negative", "stored CSR spectrum has negative entries", record=rec, bunch=b)
                    # the top bin N/2 enters the intensity but is not stored: estimate it from the last stored bin and the
                    # oracle's own form factors (the radiation impedance is smooth: Re Z[N/2] ~ Re Z[N/2-1])
                    pad = np.zeros(Nr); pad[:n] = prof[rec, b]
                    Fall = np.abs(np.fft.rfft(pad)) ** 2
                    est = float(spec[rec, b, -1]) * Fall[Nr // 2] / Fall[Nr // 2 - 1] if Fall[Nr // 2 - 1] > 0 else 0.0
                    slack = 2e-4 * (abs(tot) + abs(inten[rec, b])) + 0.6 * df * abs(est) + 1e-300
                    # where the top of the form factor lies below the rounding noise of a single-precision transform (2^-24*max|F| per bin)
                    # the stored top bins are noise and the double-precision ratio above says nothing about the unstored one: it is then only
                    # required to be "one more bin like the last stored ones" (between zero and four times the largest of the last four)
                    nu2 = (2.0 ** -24) ** 2 * float(np.max(Fall)) * math.log2(Nr)
                    if min(Fall[Nr // 2], Fall[Nr // 2 - 1]) < 1e3 * nu2:
                        rep.ev("csr_records_with_noise_dominated_top_bins")
                        extra = float(inten[rec, b]) - tot
                        rel = 2e-4 * (abs(tot) + abs(inten[rec, b])) + 1e-300
                        okc = rep.r("csr_intensity_minus_spectrum_noise_case", max(-extra / rel, (extra - 4 * df * float(np.max(spec[rec, b, -4:]))) / rel), 1.0)
                    else:
                        okc = rep.r("csr_intensity_vs_spectrum", abs(inten[rec, b] - tot - df * est) / slack, 1.0)
                    if not okc:
                        rep.v(pfx + ":csr_intensity" + (":bunch>0" if b > 0 else ""), "stored CSR intensity is not delta_f times the sum of the stored spectrum of that bunch (plus the unstored top bin)",
                              record=rec, bunch=b, intensity=float(inten[rec, b]), df_sum_spectrum=tot, top_bin_estimate=df * est)
                        break
                    if b > 0:
                        # spectrum_b * |F_0|^2 == spectrum_0 * |F_b|^2 where both are well above rounding
                        lhs, rhs = spec[rec, b] * F2[0], spec[rec, 0] * F2[b]
                        scale = np.maximum(np.abs(lhs), np.abs(rhs))
                        sel = (F2[0] > 1e-4 * np.max(F2[0])) & (F2[b] > 1e-4 * np.max(F2[b])) & (spec[rec, b] > 1e-30) & (spec[rec, 0] > 1e-30)   # (subnormal spectra carry no precision)
                        if np.any(sel):
                            e = float(np.max(np.abs(lhs - rhs)[sel] / scale[sel]))
                            rep.ev("csr_rows_compared")
                            if not rep.r("csr_row_identity", e, 1e-3):
                                rep.v(pfx + ":csr_rows", "row b of the CSR spectrum is not bunch b's spectrum", record=rec, bunch=b, rel_err=e)
                                break
    return P


PHYSICS_DATASETS = ["/BunchProfile/data", "/BunchLength/data", "/BunchPosition/data", "/BunchPopulation/data",
                    "/EnergyProfile/data", "/EnergySpread/data", "/EnergyAverage/data", "/CSR/Spectrum/data",
                    "/CSR/Intensity/data", "/WakePotential/data"]


def bits_equal(a, b):
    """bitwise equality of float arrays, +0/-0 identified, NaN == NaN only with identical payload"""
    if a.shape != b.shape:
        return False
    a = np.ascontiguousarray(a, dtype=np.float32)
    b = np.ascontiguousarray(b, dtype=np.float32)
    ai, bi = a.view(np.uint32), b.view(np.uint32)
    same = (ai == bi) | ((a == 0) & (b == 0))
    return bool(np.all(same))


def step_index(h, steps, axis="/Info/AxisValues_t"):
    t = h[axis].astype(np.float64)
    return {int(s): i for i, s in enumerate(np.rint(t * steps).astype(int))}


def compare_common_records(ha, hb, steps, datasets=None, particles=False, tol=None, phasespace=True, allow_empty=False):
    """All records (matched by step number) present in both files must be identical in every physics
    dataset.  Returns (n_compared, [mismatch dicts]).  tol=None -> bitwise; else relative to max."""
    datasets = list(PHYSICS_DATASETS if datasets is None else datasets)
    if particles:
        datasets.append("/Particles/data")
    ia, ib = step_index(ha, steps), step_index(hb, steps)
    pa, pb = step_index(ha, steps, "/PhaseSpace/axis0"), step_index(hb, steps, "/PhaseSpace/axis0")
    n = 0
    bad = []

    def cmp(x, y):
        if tol is None:
            return bits_equal(x, y)
        if x.shape != y.shape:
            return False
        m = max(float(np.max(np.abs(x))) if x.size else 0.0, 1e-300)
        return bool(np.all(np.abs(x.astype(np.float64) - y.astype(np.float64)) <= tol * m))

    for ds in datasets:
        if ds not in ha or ds not in hb:
            continue
        A, B = ha[ds], hb[ds]
        if A.shape[0] == 0 or B.shape[0] == 0:
            if (A.shape[0] == 0) != (B.shape[0] == 0) and ds != "/Particles/data" and not allow_empty:
                bad.append(dict(dataset=ds, step=None, why="one file has no records"))
            continue
        for s in sorted(set(ia) & set(ib)):
            if ia[s] >= A.shape[0] or ib[s] >= B.shape[0]:
                continue
            n += 1
            if not cmp(A[ia[s]], B[ib[s]]):
                bad.append(dict(dataset=ds, step=s))
                break
    A, B = ha["/PhaseSpace/data"], hb["/PhaseSpace/data"]
    for s in (sorted(set(pa) & set(pb)) if phasespace else []):
        if pa[s] >= A.shape[0] or pb[s] >= B.shape[0]:
            continue
        n += 1
        if not cmp(A[pa[s]], B[pb[s]]):
            bad.append(dict(dataset="/PhaseSpace/data", step=s))
            break
    return n, bad
