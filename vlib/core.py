"""Check context: verdicts, known-finding routing, evidence, worker pool."""
import hashlib
import json
import os
import re
import shutil
import subprocess
import sys
import tempfile
import time
from concurrent.futures import ThreadPoolExecutor

from . import build

VERIF = build.VERIF
EVID = os.environ.get("VERIF_EVIDENCE_DIR") or os.path.join(VERIF, "evidence")      # (overridden only by bin/seedtest)
REPLAYS = os.environ.get("VERIF_REPLAY_DIR") or os.path.join(VERIF, "replays")
KNOWN = os.path.join(VERIF, "known_findings.json")
SCRATCH_ROOT = os.environ.get("VERIF_SCRATCH", "/var/tmp/verif-scratch")
NCPU = int(os.environ.get("VERIF_JOBS", "16"))


def rng_u64(*parts):
    """counter-based PRNG: hash of (seed, stream, index...) -> 64-bit int"""
    h = hashlib.blake2b(repr(parts).encode(), digest_size=8).digest()
    return int.from_bytes(h, "little")


class Rng:
    """small deterministic generator keyed by a tuple (replayable per case)"""

    def __init__(self, *key):
        self.key = key
        self.n = 0

    def u64(self):
        self.n += 1
        return rng_u64(self.key, self.n)

    def uniform(self, a=0.0, b=1.0):
        return a + (b - a) * (self.u64() >> 11) / float(1 << 53)

    def randint(self, a, b):
        """inclusive"""
        return a + self.u64() % (b - a + 1)

    def choice(self, seq):
        return seq[self.u64() % len(seq)]

    def chance(self, p):
        return self.uniform() < p

    def loguniform(self, a, b):
        import math
        return math.exp(self.uniform(math.log(a), math.log(b)))

    def shuffle(self, seq):
        seq = list(seq)
        for i in range(len(seq) - 1, 0, -1):
            j = self.u64() % (i + 1)
            seq[i], seq[j] = seq[j], seq[i]
        return seq


class Ctx:
    def __init__(self, pid, tier, seed, level="exploration"):
        self.pid = pid
        self.tier = tier
        self.seed = seed
        self.level = level
        self.t0 = time.time()
        self.violations = []      # dict(key, what, witness)
        self.inconclusive = []    # str
        self.events = {}          # name -> count (what the monitors actually saw)
        self.worst = {}           # residual name -> (value, tol)
        self.samples = []
        self.evaluations = 0
        self.sigs = set()
        self.distinct_extra = 0   # distinct count reported by harness when sigs are not enumerated
        self.assumptions = []
        self.rule = ""
        self.extra = {}
        self.exhaustive = None
        self.min_events = {}      # name -> minimum needed, else harness failure
        self._scratch = None
        self.harness_errors = []

    # ---- bookkeeping -------------------------------------------------------
    def ev(self, name, n=1):
        self.events[name] = self.events.get(name, 0) + n

    def case(self, sig=None, n=1):
        self.evaluations += n
        if sig is not None:
            self.sigs.add(sig)

    def residual(self, name, value, tol):
        """track worst residual; returns True if within tolerance"""
        try:
            bad = not (value <= tol)
        except TypeError:
            bad = True
        cur = self.worst.get(name)
        if cur is None or (value == value and value > cur[0]) or value != value:
            self.worst[name] = (float(value), float(tol))
        return not bad

    def violation(self, key, what, witness=None):
        self.violations.append(dict(key=key, what=what, witness=witness))

    def inconcl(self, what):
        self.inconclusive.append(what)

    def sample(self, obj, cap=6):
        if len(self.samples) < cap:
            self.samples.append(obj)

    def scratch(self):
        if self._scratch is None:
            os.makedirs(SCRATCH_ROOT, exist_ok=True)
            self._scratch = tempfile.mkdtemp(prefix="%s-" % self.pid, dir=SCRATCH_ROOT)
        return self._scratch

    def cleanup(self):
        if self._scratch and not os.environ.get("VERIF_KEEP"):
            shutil.rmtree(self._scratch, ignore_errors=True)

    # ---- finish ------------------------------------------------------------
    def finish(self):
        wall = time.time() - self.t0
        known, fixed = load_known()
        kn = {(k["property"], k["key"]): k for k in known}
        by_key = {}
        for v in self.violations:
            by_key.setdefault(v["key"], []).append(v)
        new = []
        out = []
        for key, vs in sorted(by_key.items()):
            if (self.pid, key) in kn:
                out.append("KNOWN-FINDING: property=%s %s [key=%s, %d occurrence(s)]" % (
                    self.pid, kn[(self.pid, key)]["what"], key, len(vs)))
            else:
                new.append((key, vs))
        rc = 0
        try:
            for f in os.listdir(REPLAYS):
                if f.startswith(self.pid + "-"):
                    os.unlink(os.path.join(REPLAYS, f))      # witnesses of earlier runs are stale
        except OSError:
            pass
        for key, vs in new:
            os.makedirs(REPLAYS, exist_ok=True)
            safe = re.sub(r"[^A-Za-z0-9_.-]+", "_", key)[:80]
            path = os.path.join(REPLAYS, "%s-%s.json" % (self.pid, safe))
            with open(path, "w") as fh:
                json.dump(dict(property=self.pid, key=key, tier=self.tier, seed=self.seed,
                               count=len(vs), first=vs[0], others=[v["what"] for v in vs[1:6]]),
                          fh, indent=1, default=str)
            out.append("VIOLATION property=%s replay=%s" % (self.pid, path))
            out.append("  key=%s: %s (%d occurrence(s))" % (key, vs[0]["what"], len(vs)))
            rc = 1
        # observed-too-little => harness failure (exit 2), never a pass
        short = []
        for name, need in self.min_events.items():
            if self.events.get(name, 0) < need:
                short.append("%s: saw %d, need >= %d" % (name, self.events.get(name, 0), need))
        if self.harness_errors:
            short += self.harness_errors[:5]
        distinct = len(self.sigs) + self.distinct_extra
        if rc == 0 and (short or self.evaluations < 1 or distinct < 2):
            rc = 2
            out.append("HARNESS-FAILURE property=%s %s" % (
                self.pid, "; ".join(short) or "observed nothing (evaluations=%d distinct=%d)" % (
                    self.evaluations, distinct)))
        cov = dict(evaluations=int(self.evaluations), distinct_nontrivial=int(distinct),
                   rule=self.rule, samples=self.samples or [dict(note="no sample recorded")],
                   events_observed=self.events,
                   worst_residuals={k: dict(value=v[0], tolerance=v[1]) for k, v in sorted(self.worst.items())},
                   inconclusive=len(self.inconclusive),
                   inconclusive_examples=self.inconclusive[:5],
                   known_findings_seen=sorted(k for k in by_key if (self.pid, k) in kn),
                   new_violation_keys=[k for k, _ in new])
        if self.exhaustive is not None:
            cov["exhaustive"] = bool(self.exhaustive)
        cov.update(self.extra)
        evd = dict(property_id=self.pid, tier=self.tier, seed=int(self.seed), level=self.level,
                   coverage=cov, assumptions=self.assumptions, wall_s=round(wall, 2),
                   violations=len(new))
        os.makedirs(EVID, exist_ok=True)
        tmp = os.path.join(EVID, ".%s.json.tmp%d" % (self.pid, os.getpid()))
        with open(tmp, "w") as fh:
            json.dump(evd, fh, indent=1, default=str)
        os.replace(tmp, os.path.join(EVID, "%s.json" % self.pid))
        for line in out:
            print(line)
        print("%s %s tier=%s seed=%d: %d evaluations, %d distinct, %d violation key(s) new, "
              "%d known, %d inconclusive, %.1fs" % (
                  self.pid, {0: "HELD", 1: "VIOLATED", 2: "HARNESS-FAILURE"}[rc], self.tier,
                  self.seed, self.evaluations, distinct, len(new),
                  len(by_key) - len(new), len(self.inconclusive), wall))
        for k, v in sorted(self.worst.items()):
            print("   residual %-40s worst %.3g (tol %.3g)" % (k, v[0], v[1]))
        ev = ", ".join("%s=%d" % kv for kv in sorted(self.events.items()))
        if ev:
            print("   events: " + ev)
        sys.stdout.flush()
        self.cleanup()
        return rc


def load_known():
    try:
        with open(KNOWN) as fh:
            d = json.load(fh)
    except FileNotFoundError:
        return [], []
    return d.get("known", []), d.get("fixed", [])


# ---- sanitizer / crash classification ----------------------------------------
_SAN_RE = re.compile(r"ERROR: AddressSanitizer: ([\w-]+)")
_UB_RE = re.compile(r"runtime error: (.*)")
_FRAME_RE = re.compile(r"#\d+ 0x[0-9a-f]+ in (.+?) (/[^\s:]+):(\d+)")


def _strip_fn(fn):
    fn = re.sub(r"\(.*", "", fn)
    fn = re.sub(r"<.*?>", "", fn)
    return fn.strip()


def classify_sanitizer(text):
    """-> (key, summary) or None.  Key = kind + first frame in repository code."""
    kind = None
    m = _SAN_RE.search(text)
    if m:
        kind = "asan:" + m.group(1)
        start = m.start()
    else:
        m = _UB_RE.search(text)
        if m:
            msg = m.group(1)
            msg = re.sub(r"-?\d[\d.e+-]*|nan|inf", "N", msg)
            msg = re.sub(r"0x[0-9a-f]+", "P", msg)
            kind = "ubsan:" + msg[:70].strip()
            start = max(0, text.rfind("\n", 0, m.start()))
    if not kind:
        return None
    fn = "?"
    # the "file:line:col: runtime error" location itself
    mloc = re.search(r"(/[^\s:]+):(\d+):\d+: runtime error", text[start:])
    loc = None
    for fm in _FRAME_RE.finditer(text[start:]):
        path = fm.group(2)
        if "/repo/" in path or path.startswith(build.REPO) or "/harness/" in path:
            fn = _strip_fn(fm.group(1))
            loc = "%s:%s" % (os.path.basename(path), fm.group(3))
            break
    if loc is None and mloc:
        loc = "%s:%s" % (os.path.basename(mloc.group(1)), mloc.group(2))
    # key deliberately has no line number: call site = function
    key = "%s:%s" % (kind, fn if fn != "?" else (loc or "?"))
    return key, "%s at %s (%s)" % (kind, fn, loc)


def run_cmd(cmd, cwd=None, env=None, timeout=120, stdin=None, stdout_to=None):
    """run with watchdog -> dict(rc, out, err, hang, sig, wall).  stdout_to: path the standard output is opened on instead of a pipe
    (e.g. /dev/full, where every write fails with ENOSPC); 'out' is then empty."""
    t0 = time.time()
    e = dict(os.environ)
    if env:
        e.update(env)
    so = open(stdout_to, "wb") if stdout_to else None
    try:
        p = subprocess.run(cmd, cwd=cwd, env=e, stdout=so if so else subprocess.PIPE, stderr=subprocess.PIPE,
                           timeout=timeout, stdin=subprocess.DEVNULL if stdin is None else stdin)
        rc = p.returncode
        return dict(rc=rc, out=(p.stdout or b"").decode(errors="replace"), err=p.stderr.decode(errors="replace"),
                    hang=False, sig=-rc if rc < 0 else 0, wall=time.time() - t0)
    except subprocess.TimeoutExpired as ex:
        return dict(rc=None, out=(ex.stdout or b"").decode(errors="replace"),
                    err=(ex.stderr or b"").decode(errors="replace"), hang=True, sig=0,
                    wall=time.time() - t0)
    finally:
        if so:
            so.close()


def pmap(fn, items, jobs=None):
    jobs = jobs or NCPU
    if not items:
        return []
    with ThreadPoolExecutor(min(jobs, len(items))) as ex:
        return list(ex.map(fn, items))


# ---- harness protocol ---------------------------------------------------------
SAN_ENV = {
    "ASAN_OPTIONS": "abort_on_error=0:halt_on_error=1:detect_leaks=0:exitcode=99:allocator_may_return_null=1",
    "UBSAN_OPTIONS": "print_stacktrace=1:halt_on_error=1:exitcode=98",
}


def run_harness(ctx, name, ncases, variant="rel", args=(), jobs=None, timeout=1800, chunk=None,
                xdg=None):
    """Run harness <name> over case indices [0,ncases) split over workers.
    Harness protocol (stdout lines):
      S {json}  per-worker summary: cases, events{}, worst{name:[val,tol]}, distinct (optional)
      V {json}  violation: key, what, detail
      C {json}  sample case
      G sig sig ...   64-bit hex signatures of non-trivial cases (distinct counting)
    A crash / sanitizer report of a worker is itself routed as a violation (key from report)."""
    exe = build.build_harness(variant, name)
    jobs = jobs or NCPU
    if chunk is None:
        chunk = max(1, (ncases + jobs - 1) // jobs)
    parts = [(a, min(chunk, ncases - a)) for a in range(0, ncases, chunk)]
    sdir = ctx.scratch()

    def one(part):
        a, n = part
        wd = os.path.join(sdir, "%s-%s-%d" % (name, variant, a))
        os.makedirs(wd, exist_ok=True)
        env = dict(SAN_ENV)
        env["XDG_DATA_HOME"] = xdg or os.path.join(wd, "xdg")
        env["MALLOC_PERTURB_"] = str(1 + (a * 31 + ctx.seed * 7) % 254)      # glibc fills fresh / freed heap memory with this byte (no effect under ASan)
        cmd = [exe, "--seed", str(ctx.seed), "--from", str(a), "--count", str(n),
               "--tier", ctx.tier] + [str(x) for x in args]
        r = run_cmd(cmd, cwd=wd, env=env, timeout=timeout)
        r["part"] = part
        r["cmd"] = cmd
        return r

    results = pmap(one, parts, jobs)
    for r in results:
        parse_harness_output(ctx, name, variant, r)
    return results


def parse_harness_output(ctx, name, variant, r):
    got_summary = False
    for line in r["out"].splitlines():
        if len(line) < 2 or line[1] != " ":
            continue
        tag, body = line[0], line[2:]
        try:
            if tag == "S":
                s = json.loads(body)
                got_summary = True
                ctx.evaluations += s.get("cases", 0)
                for k, v in s.get("events", {}).items():
                    ctx.ev(k, v)
                for k, (val, tol) in s.get("worst", {}).items():
                    if val is None:
                        val = float("nan")
                    ctx.residual(k + ("" if variant == "rel" else "@" + variant), val, tol)
                ctx.distinct_extra += s.get("distinct", 0)
                if s.get("exhaustive") is not None:
                    ctx.exhaustive = s["exhaustive"] if ctx.exhaustive is None else (ctx.exhaustive and s["exhaustive"])
            elif tag == "V":
                v = json.loads(body)
                ctx.violation(v["key"], v.get("what", ""), dict(
                    harness=name, variant=variant, cmd=" ".join(r["cmd"]), detail=v.get("detail")))
            elif tag == "C":
                ctx.sample(json.loads(body))
            elif tag == "G":
                for s in body.split():
                    ctx.sigs.add(s)
            elif tag == "I":
                ctx.inconcl(body)
        except (ValueError, KeyError) as ex:
            ctx.harness_errors.append("unparsable harness line %r (%s)" % (line[:80], ex))
    if r["hang"]:
        ctx.violation("hang:harness:%s" % name, "harness %s did not terminate (watchdog)" % name,
                      dict(cmd=" ".join(r["cmd"])))
        return
    if r["rc"] != 0:
        san = classify_sanitizer(r["err"])
        lastcase = None
        for line in r["err"].splitlines():
            if line.startswith("CASE "):
                lastcase = line[5:]
        if san:
            ctx.violation(san[0], san[1] + " in harness %s (%s)" % (name, variant),
                          dict(cmd=" ".join(r["cmd"]), case=lastcase, report=r["err"][-3000:]))
        elif r["rc"] < 0:
            ctx.violation("signal:%d:harness:%s" % (-r["rc"], name),
                          "harness %s killed by signal %d" % (name, -r["rc"]),
                          dict(cmd=" ".join(r["cmd"]), case=lastcase, stderr=r["err"][-2000:]))
        else:
            ctx.harness_errors.append("harness %s (%s) exit %s: %s" % (
                name, variant, r["rc"], r["err"][-300:].replace("\n", " | ")))
    elif not got_summary:
        ctx.harness_errors.append("harness %s produced no summary" % name)


def warm_wisdom(ctx, harness, variant="rel", args=("--mode", "warm")):
    """FFT wisdom shared by all workers of one check: created in a warm-up phase in which every
    transform length is planned by exactly one process (no concurrent export to one file), then
    only read.  Lives in the cache (cold cache = re-plan)."""
    exe = build.build_harness(variant, harness)
    wdir = os.path.join(build.CACHE, "wisdom", "%s-%s" % (harness, ctx.tier))
    os.makedirs(os.path.join(wdir, "inovesa", "fftwisdom"), exist_ok=True)
    r = run_cmd([exe, "--mode", "lengths", "--tier", ctx.tier], timeout=60)
    lengths = [int(l.split()[1]) for l in r["out"].splitlines() if l.startswith("L ")]
    todo = [i for i, n in enumerate(lengths)
            if not (os.path.exists(os.path.join(wdir, "inovesa", "fftwisdom", "wisdom_r2c32_%d.fftw" % n)) and
                    os.path.exists(os.path.join(wdir, "inovesa", "fftwisdom", "wisdom_c2r32_%d.fftw" % n)))]
    with build.Lock(os.path.join(build.CACHE, "lock.wisdom.%s.%s" % (harness, ctx.tier))):
        def one(i):
            return run_cmd([exe, "--seed", "1", "--from", str(i), "--count", "1", "--tier", ctx.tier] + list(args),
                           env={"XDG_DATA_HOME": wdir}, timeout=1800, cwd=wdir)
        res = pmap(one, todo)
    for rr in res:
        if rr["rc"] != 0:
            ctx.harness_errors.append("wisdom warm-up failed: rc=%s %s" % (rr["rc"], rr["err"][-200:]))
    ctx.extra["fft_lengths"] = lengths
    return wdir
