"""Which anchored code did a check's workload actually execute?

`measure(pid, tier)` re-runs the check's own driver in coverage mode (VERIF_COV=1: the release and
sanitizer variants are replaced by a clang source-based-coverage build of /repo's working tree, the
verdicts of that run are discarded), merges the raw profiles of every process the check started
(the real program and the API harnesses) and reports, for the files and functions the property is
anchored in (properties.jsonl: anchors.files, anchors.mechanism[].where, anchors.state[].where),
the executed / instrumented line counts and the execution count of every anchored function.

This is evidence about reach ("the monitors observed executions that went through these lines"), not
a verdict; an anchored function with zero executions is printed so that the workload can be extended.
"""
import glob
import json
import os
import re
import shutil
import subprocess
import sys
import tempfile
import time

from . import build

PROFDATA = "llvm-profdata-14"
LLVMCOV = "llvm-cov-14"


def anchors(pid):
    with open(os.path.join(build.VERIF, "properties.jsonl")) as fh:
        for line in fh:
            p = json.loads(line)
            if p["id"] == pid:
                a = p.get("anchors", {})
                files = list(a.get("files", []))
                fns = []
                for sect in ("mechanism", "state"):
                    for m in a.get(sect, []) or []:
                        w = m.get("where", "")
                        for f in re.findall(r"[A-Za-z_]\w*(?:::~?[A-Za-z_]\w*)+", w):
                            if f not in fns:
                                fns.append(f)
                        # "Class::a / b" and "Class::a/b/c": the later names belong to the same class
                        for cls, rest in re.findall(r"([A-Za-z_]\w*)::~?[A-Za-z_]\w*((?:\s*/\s*[A-Za-z_]\w*(?!\w*::))+)", w):
                            for g in re.findall(r"[A-Za-z_]\w*", rest):
                                f = "%s::%s" % (cls, g)
                                if f not in fns:
                                    fns.append(f)
                        for f in re.findall(r"((?:src|inc)/[\w/]+\.[ch]pp)", w):
                            if f not in files:
                                files.append(f)
                return files, fns
    raise KeyError(pid)


def _parse_lcov(text):
    files = {}
    cur = None
    for line in text.splitlines():
        if line.startswith("SF:"):
            cur = files.setdefault(line[3:], dict(lines={}, fn={}))
        elif cur is None:
            continue
        elif line.startswith("DA:"):
            ln, cnt = line[3:].split(",")[:2]
            cur["lines"][int(ln)] = cur["lines"].get(int(ln), 0) + int(cnt)
        elif line.startswith("FNDA:"):
            cnt, name = line[5:].split(",", 1)
            cur["fn"][name] = cur["fn"].get(name, 0) + int(cnt)
        elif line.startswith("FN:"):
            _, name = line[3:].split(",", 1)
            cur["fn"].setdefault(name, 0)
    return files


def _demangle(names):
    if not names:
        return {}
    p = subprocess.run(["c++filt"], input="\n".join(names).encode(), stdout=subprocess.PIPE)
    out = p.stdout.decode().splitlines()
    return dict(zip(names, out))


def measure(pid, tier="quick", seed=None, keep=False, timeout=3600):
    t0 = time.time()
    os.makedirs("/var/tmp/verif-scratch", exist_ok=True)
    work = tempfile.mkdtemp(prefix="cov-%s-" % pid, dir="/var/tmp/verif-scratch")
    env = dict(os.environ)
    env.update(VERIF_COV="1", LLVM_PROFILE_FILE=os.path.join(work, "prof", "p-%8m.profraw"),
               VERIF_EVIDENCE_DIR=os.path.join(work, "ev"), VERIF_REPLAY_DIR=os.path.join(work, "rp"))
    if seed is not None:
        env["VERIF_SEED"] = str(seed)
    os.makedirs(os.path.join(work, "prof"))
    try:
        p = subprocess.run([os.path.join(build.VERIF, "bin", "check"), pid, "--tier", tier], env=env,
                           stdout=subprocess.PIPE, stderr=subprocess.STDOUT, timeout=timeout)
        log = p.stdout.decode(errors="replace")
        raws = glob.glob(os.path.join(work, "prof", "*.profraw"))
        if not raws:
            return dict(error="no profiles written", log=log[-2000:])
        pd = os.path.join(work, "all.profdata")
        m = subprocess.run([PROFDATA, "merge", "-sparse", "-o", pd] + raws, stdout=subprocess.PIPE,
                           stderr=subprocess.STDOUT)
        if m.returncode:
            return dict(error="profdata merge failed: " + m.stdout.decode()[-500:])
        os.environ["VERIF_COV"] = "1"
        vd = build.variant_dir("cov")
        bins = [os.path.join(vd, "inovesa")] + sorted(glob.glob(os.path.join(vd, "h_*")))
        bins = [b for b in bins if os.path.isfile(b) and ".tmp" not in b]
        cmd = [LLVMCOV, "export", "-format=lcov", "-instr-profile", pd, bins[0]]
        for b in bins[1:]:
            cmd += ["-object", b]
        cmd += [os.path.join(build.REPO, "src"), os.path.join(build.REPO, "inc")]
        e = subprocess.run(cmd, stdout=subprocess.PIPE, stderr=subprocess.PIPE)
        if e.returncode:
            return dict(error="llvm-cov export failed: " + e.stderr.decode()[-500:])
        files = _parse_lcov(e.stdout.decode(errors="replace"))
    finally:
        if not keep:
            shutil.rmtree(work, ignore_errors=True)
    afiles, afns = anchors(pid)
    rep = dict(property_id=pid, tier=tier, files={}, anchored_functions={}, unreached_in_anchored_files=[],
               profile_files=len(raws), check_exit=p.returncode, wall_s=round(time.time() - t0, 1))
    allfn = {}
    for path, d in files.items():
        rel = os.path.relpath(path, build.REPO)
        dm = _demangle(list(d["fn"]))
        for mangled, cnt in d["fn"].items():
            allfn.setdefault(rel, {})
            name = dm.get(mangled, mangled)
            allfn[rel][name] = allfn[rel].get(name, 0) + cnt
    for af in afiles:
        d = files.get(os.path.join(build.REPO, af))
        if d is None:
            rep["files"][af] = dict(instrumented_lines=0, executed_lines=0, note="no instrumented code (header without functions, or not compiled)")
            continue
        tot = len(d["lines"])
        hit = sum(1 for c in d["lines"].values() if c > 0)
        rep["files"][af] = dict(instrumented_lines=tot, executed_lines=hit,
                                functions=len(allfn.get(af, {})),
                                functions_executed=sum(1 for c in allfn.get(af, {}).values() if c > 0))
        for name, cnt in sorted(allfn.get(af, {}).items()):
            if cnt == 0:
                rep["unreached_in_anchored_files"].append("%s: %s" % (af, re.sub(r"\(.*", "", name)[:90]))
    for fn in afns:
        short = fn.replace("vfps::", "")
        total = 0
        found = False
        for rel, d in allfn.items():
            for name, cnt in d.items():
                base = re.sub(r"\(.*", "", name)
                if base.endswith(short) or ("::" + short.split("::")[-1]) in base and short.split("::")[0] in base:
                    total += cnt
                    found = True
        rep["anchored_functions"][fn] = total if found else None      # None: not a function (data member) or not compiled
    return rep


if __name__ == "__main__":
    pid = sys.argv[1].upper()
    tier = sys.argv[2] if len(sys.argv) > 2 else "quick"
    r = measure(pid, tier)
    json.dump(r, sys.stdout, indent=1)
    print()
