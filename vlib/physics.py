"""Independent double-precision derivation of the machine/numerical quantities a configuration
implies (from the physics formulas, not from Inovesa's code paths)."""
import math
import struct

C = 2.99792458e8
EPS0 = 8.854187817e-12
QE = 1.602e-19          # the value the repository uses
ME = 510998.9

DEFAULTS = dict(
    alpha0=4e-3, alpha1=0.0, alpha2=0.0, SynchrotronFrequency=0.0, RevolutionFrequency=9e6,
    DampingTime=-1.0, HarmonicNumber=50.0, InitialDistStep=-1, InitialDistZoom=1.0,
    BunchCurrent=[3e-3], BendingRadius=-1.0, BeamEnergy=1.3e9, BeamEnergySpread=4.7e-4,
    VacuumGap=0.03, UseCSR=True, CollimatorRadius=0.0, WallConductivity=0.0, WallSusceptibility=0.0,
    CutoffFreq=23e9, AcceleratingVoltage=1e6, LinearRF=True, RFAmplitudeSpread=0.0, RFPhaseSpread=0.0,
    RFPhaseModAmplitude=0.0, RFPhaseModFrequency=0.0,
    outstep=100, SavePhaseSpace=0, tracking="", verbose=False,
    StepsPerTs=1000, StepsPerRevolution=0.0, padding=8.0, RoundPadding=True, PhaseSpaceSize=12.0,
    PhaseSpaceShiftX=0.0, PhaseSpaceShiftY=0.0, RenormalizeCharge=0, FPType=3, FPTrack=3,
    GridSize=256, rotations=5.0, derivation=4, InterpolationPoints=4, InterpolateClamped=False,
)

FLOAT_OPTS = {"alpha0", "alpha1", "alpha2", "SynchrotronFrequency", "RevolutionFrequency", "HarmonicNumber",
              "CutoffFreq", "PhaseSpaceSize", "PhaseSpaceShiftX", "PhaseSpaceShiftY"}   # single precision in the program


def f32(x):
    return struct.unpack("f", struct.pack("f", float(x)))[0]


def upper_pow2(v):
    p = 1
    while p < v:
        p *= 2
    return p


def derive(user):
    o = dict(DEFAULTS)
    o.update(user)
    for k in FLOAT_OPTS:
        o[k] = f32(o[k])
    cur = [f32(x) for x in (o["BunchCurrent"] if isinstance(o["BunchCurrent"], (list, tuple)) else [o["BunchCurrent"]])]
    d = dict(o=o)
    n = int(o["GridSize"])
    pq = o["PhaseSpaceSize"]
    E0 = o["BeamEnergy"]
    sE = o["BeamEnergySpread"]
    dE = sE * E0
    frev = o["RevolutionFrequency"]
    H = o["HarmonicNumber"]
    R = o["BendingRadius"] if o["BendingRadius"] > 0 else C / (2 * math.pi * frev)
    gamma = E0 / ME
    V0 = QE * gamma ** 4 / (3 * EPS0 * R)
    V = o["AcceleratingVoltage"]
    Veff = math.sqrt(V * V - V0 * V0)
    fs = o["SynchrotronFrequency"]
    a0 = o["alpha0"]
    if fs == 0:
        fs = frev * math.sqrt(a0 * H * Veff / (2 * math.pi * E0))
    else:
        a0 = math.copysign(1, fs) * 2 * math.pi * E0 / (H * Veff) * (fs / frev) ** 2
    # natural bunch length: sigma_z = alpha*c*sigma_delta/(2 pi f_s)
    bl = a0 * C * sE / (2 * math.pi * fs) if o["SynchrotronFrequency"] == 0 else C * dE / H / frev ** 2 / Veff * fs
    steps = o["StepsPerRevolution"] * frev / fs if o["StepsPerRevolution"] > 0 else float(max(int(o["StepsPerTs"]), 1))
    dt = 1.0 / (fs * steps)
    filling = cur
    nbuckets = len(filling)
    buckets = [nbuckets - 1 - i for i, c in enumerate(filling) if c > 0]
    bunches = [c for c in filling if c > 0]
    Ib = sum(bunches)
    W0 = V0 * QE
    calc_damp = E0 * QE / W0 / frev
    t_damp = calc_damp if o["DampingTime"] < 0 else o["DampingTime"]
    e1 = 2.0 / (fs * t_damp * steps) if t_damp > 0 else 0.0
    bunchspacing = 1.0 / (frev * H)
    spacing_ps = bunchspacing * C / bl / pq
    spacing_bins = int(round(n * spacing_ps)) if n * spacing_ps < 4e9 else None
    padding = max(o["padding"], 1.0)
    padded = int(math.ceil(n * padding))
    spaced = int(math.ceil(n * nbuckets * spacing_ps)) if n * nbuckets * spacing_ps < 4e18 else None
    if spaced is not None and spacing_bins is not None:
        spaced = max(spaced, (nbuckets - 1) * spacing_bins + n)     # the last bucket's grid must fit behind the rounded spacing
    if o["RoundPadding"]:
        padded = upper_pow2(padded)
        if spaced is not None:
            spaced = upper_pow2(spaced)
    delta = pq / (n - 1) if n > 1 else float("nan")
    d.update(n=n, pq=pq, delta=delta, E0=E0, sE=sE, dE=dE, frev=frev, H=H, R=R, V0=V0, V=V, Veff=Veff, fs=fs,
             alpha0=a0, bl=bl, steps=steps, dt=dt, revpart=frev * dt, filling=filling, nbuckets=nbuckets,
             buckets=buckets, bunches=bunches, nb=len(bunches), Ib=Ib, Qb=Ib / frev if frev else float("nan"),
             t_damp=t_damp, e1=e1, spacing_bins=spacing_bins, padded_bins=padded, spaced_bins=spaced,
             wake_N=(spaced if nbuckets > 1 else padded), angle=2 * math.pi / steps,
             qc=-o["PhaseSpaceShiftX"] * pq / (n - 1) if n > 1 else 0.0,
             pc=-o["PhaseSpaceShiftY"] * pq / (n - 1) if n > 1 else 0.0,
             laststep=int(math.ceil(steps * f32(o["rotations"]))),
             fmax=n * C / (pq * bl))
    return d
