"""Build driver: compiles /repo's *current working tree* into variants.

Outputs live in a content-addressed cache outside /repo and /verif
(/var/tmp/verif-cache/<hash>/<variant>); the hash covers every file under
/repo/src, /repo/inc and the flags, so an edited tree always rebuilds and an
unchanged one is compiled once for all checks.
"""
import fcntl
import hashlib
import os
import shutil
import subprocess
import sys
import time
from concurrent.futures import ThreadPoolExecutor

REPO = os.environ.get("VERIF_REPO", "/repo")
VERIF = os.path.dirname(os.path.dirname(os.path.abspath(__file__)))
CACHE = os.environ.get("VERIF_CACHE", "/var/tmp/verif-cache")
GUARD = "INOVESA_VERIF"

DEFINES = [
    "-DINOVESA_ENABLE_INTERRUPT=1", "-DINOVESA_USE_HDF5=1",
    "-DINOVESA_USE_OPENCL=0", "-DINOVESA_USE_OPENGL=0", "-DINOVESA_USE_PNG=0",
    '-DGIT_BRANCH="feature/verification-build-with-a-long-branch-name"', '-DGIT_COMMIT="0123456789abcdef0123456789abcdef01234567"', "-D%s=1" % GUARD,
]
INCLUDES = ["-I/usr/include/hdf5/serial"]
LIBS = ["-L/usr/lib/x86_64-linux-gnu/hdf5/serial", "-lhdf5_cpp", "-lhdf5",
        "-lfftw3f", "-lfftw3", "-lboost_filesystem", "-lboost_program_options",
        "-lboost_system", "-ldl", "-lpthread"]

VARIANTS = {
    # what CMake does for GNU compilers (release)
    "rel": dict(cxx="g++", flags=["-std=c++14", "-fext-numeric-literals", "-O3",
                                  "-march=native", "-w"]),
    # sanitizer build: clang (gcc's ASan misses complex<float> OOB at -O1+)
    "asan": dict(cxx="clang++-14",
                 flags=["-std=c++14", "-O1", "-g", "-fno-omit-frame-pointer",
                        "-fsanitize=address,undefined",
                        "-fno-sanitize-recover=all",
                        "-fno-sanitize=object-size", "-w"]),
    # plain clang build without -march for valgrind memcheck
    "memck": dict(cxx="clang++-14", flags=["-std=c++14", "-O1", "-g", "-gdwarf-4", "-w"]),   # valgrind 3.19 cannot read clang's DWARF 5
    # coverage-guided in-process fuzzing of the input readers (C17): the sanitizer flags plus libFuzzer's edge instrumentation
    "fuzz": dict(cxx="clang++-14",
                 flags=["-std=c++14", "-O1", "-g", "-fno-omit-frame-pointer", "-fsanitize=address,undefined", "-fsanitize=fuzzer-no-link",
                        "-fno-sanitize-recover=all", "-fno-sanitize=object-size", "-w"]),
    # source-based coverage (bin/anchorcov and the coverage pass of the thorough tier): which anchored
    # functions and lines the workloads of a check actually reach
    "cov": dict(cxx="clang++-14", flags=["-std=c++14", "-O1", "-g", "-fprofile-instr-generate",
                                         "-fcoverage-mapping", "-w"]),
}


def eff(variant):
    """In coverage mode (VERIF_COV=1) the release and sanitizer variants are replaced by the
    coverage-instrumented build, so that a check's own workload can be measured unchanged."""
    if os.environ.get("VERIF_COV") and variant in ("rel", "asan"):
        return "cov"
    return variant


def _src_files():
    out = []
    for root in ("src", "inc"):
        for d, _, fs in os.walk(os.path.join(REPO, root)):
            for f in fs:
                if f.endswith((".cpp", ".hpp", ".h", ".in")):
                    out.append(os.path.join(d, f))
    out.append(os.path.join(REPO, "InovesaConfig.hpp.in"))
    return sorted(out)


def tree_hash():
    h = hashlib.sha256()
    for f in _src_files():
        h.update(f.encode())
        with open(f, "rb") as fh:
            h.update(hashlib.sha256(fh.read()).digest())
    h.update(repr(sorted((k, v["cxx"], v["flags"]) for k, v in VARIANTS.items())).encode())
    h.update(repr(DEFINES + INCLUDES + LIBS).encode())
    return h.hexdigest()[:20]


class Lock:
    def __init__(self, path):
        self.path = path

    def __enter__(self):
        os.makedirs(os.path.dirname(self.path), exist_ok=True)
        self.fh = open(self.path, "w")
        fcntl.flock(self.fh, fcntl.LOCK_EX)
        return self

    def __exit__(self, *a):
        fcntl.flock(self.fh, fcntl.LOCK_UN)
        self.fh.close()


def _run(cmd, log):
    p = subprocess.run(cmd, stdout=subprocess.PIPE, stderr=subprocess.STDOUT)
    if p.returncode != 0:
        with open(log, "ab") as fh:
            fh.write((" ".join(cmd) + "\n").encode() + p.stdout)
    return p.returncode, p.stdout.decode(errors="replace")


def _gen_config(incdir):
    os.makedirs(incdir, exist_ok=True)
    with open(os.path.join(REPO, "InovesaConfig.hpp.in")) as fh:
        txt = fh.read()
    # version numbers as set in CMakeLists.txt
    major, minor, fix = "1", "2", "-1"
    try:
        import re
        cm = open(os.path.join(REPO, "CMakeLists.txt")).read()
        major = re.search(r"INOVESA_VERSION_MAJOR\s+(-?\d+)", cm).group(1)
        minor = re.search(r"INOVESA_VERSION_MINOR\s+(-?\d+)", cm).group(1)
        fix = re.search(r"INOVESA_VERSION_FIX\s+(-?\d+)", cm).group(1)
    except Exception:
        pass
    txt = (txt.replace("@INOVESA_VERSION_MAJOR@", major)
              .replace("@INOVESA_VERSION_MINOR@", minor)
              .replace("@INOVESA_VERSION_FIX@", fix))
    with open(os.path.join(incdir, "InovesaConfig.hpp"), "w") as fh:
        fh.write(txt)


def _prune(keep):
    """keep the most recent trees, delete the rest"""
    try:
        import re
        ents = [e for e in os.listdir(CACHE)
                if re.fullmatch(r"[0-9a-f]{20}", e) and os.path.isdir(os.path.join(CACHE, e)) and e != keep]
    except FileNotFoundError:
        return
    ents.sort(key=lambda e: os.path.getmtime(os.path.join(CACHE, e)), reverse=True)
    now = time.time()
    for e in ents[5:]:      # keep the six most recent trees, and any tree used within the last two hours (concurrent checks)
        if now - os.path.getmtime(os.path.join(CACHE, e)) < 7200:
            continue
        shutil.rmtree(os.path.join(CACHE, e), ignore_errors=True)


def variant_dir(variant):
    variant = eff(variant)
    return os.path.join(CACHE, tree_hash(), variant)


def cflags(variant):
    variant = eff(variant)
    v = VARIANTS[variant]
    vd = variant_dir(variant)
    return ([v["cxx"]] + v["flags"] + DEFINES + INCLUDES +
            ["-I" + os.path.join(vd, "gen"), "-I" + os.path.join(REPO, "inc")])


def build(variant, jobs=16, quiet=False):
    """Build libinovesa.a + inovesa for the variant; returns the variant dir.
    Raises RuntimeError (harness failure) if the tree does not compile."""
    variant = eff(variant)
    th = tree_hash()
    vd = os.path.join(CACHE, th, variant)
    stamp = os.path.join(vd, "OK")
    if os.path.exists(stamp):
        try:
            os.utime(os.path.join(CACHE, th), None)     # mark the tree as in use (pruning spares recently used trees)
        except OSError:
            pass
        return vd
    with Lock(os.path.join(CACHE, "lock." + variant)):
        if os.path.exists(stamp):
            return vd
        t0 = time.time()
        _prune(th)
        shutil.rmtree(vd, ignore_errors=True)
        os.makedirs(os.path.join(vd, "obj"))
        _gen_config(os.path.join(vd, "gen"))
        log = os.path.join(vd, "build.log")
        srcs = []
        for d, _, fs in os.walk(os.path.join(REPO, "src")):
            for f in fs:
                if f.endswith(".cpp"):
                    srcs.append(os.path.join(d, f))
        srcs.sort()
        base = cflags(variant)

        def comp(src):
            rel = os.path.relpath(src, os.path.join(REPO, "src")).replace("/", "_")
            obj = os.path.join(vd, "obj", rel[:-4] + ".o")
            rc, out = _run(base + ["-c", src, "-o", obj], log)
            return rc, obj, src, out

        with ThreadPoolExecutor(jobs) as ex:
            res = list(ex.map(comp, srcs))
        bad = [r for r in res if r[0] != 0]
        if bad:
            raise RuntimeError("compile failed (%s): %s\n%s" % (
                variant, bad[0][2], bad[0][3][-3000:]))
        objs = [r[1] for r in res if not r[1].endswith("/main.o")]
        mainobj = [r[1] for r in res if r[1].endswith("/main.o")]
        lib = os.path.join(vd, "libinovesa.a")
        rc, out = _run(["ar", "rcs", lib] + objs, log)
        if rc:
            raise RuntimeError("ar failed: " + out)
        v = VARIANTS[variant]
        link = [v["cxx"]] + [f for f in v["flags"] if f.startswith(("-fsanitize", "-fno-sanitize", "-g", "-O", "-march", "-fprofile", "-fcoverage"))]
        rc, out = _run(link + mainobj + [lib] + LIBS + ["-o", os.path.join(vd, "inovesa")], log)
        if rc:
            raise RuntimeError("link failed: " + out[-3000:])
        with open(stamp, "w") as fh:
            fh.write("%.1f\n" % (time.time() - t0))
        if not quiet:
            sys.stderr.write("[build] %s built in %.1fs -> %s\n" % (variant, time.time() - t0, vd))
    return vd


def build_harness(variant, name, extra_flags=()):
    """Compile /verif/harness/<name>.cpp against the variant's library."""
    variant = eff(variant)
    vd = build(variant)
    if variant == "fuzz":
        extra_flags = tuple(extra_flags) + ("-fsanitize=fuzzer",)      # libFuzzer driver supplies main()
    src = os.path.join(VERIF, "harness", name + ".cpp")
    h = hashlib.sha256()
    for f in [src] + sorted(
            os.path.join(VERIF, "harness", x) for x in os.listdir(os.path.join(VERIF, "harness"))
            if x.endswith(".hpp")):
        with open(f, "rb") as fh:
            h.update(fh.read())
    h.update(repr(extra_flags).encode())
    exe = os.path.join(vd, "h_%s_%s" % (name, h.hexdigest()[:12]))
    if os.path.exists(exe):
        return exe
    with Lock(os.path.join(CACHE, "lock.h.%s.%s" % (variant, name))):
        if os.path.exists(exe):
            return exe
        for old in os.listdir(vd):
            if old.startswith("h_%s_" % name):
                try:
                    os.unlink(os.path.join(vd, old))
                except OSError:
                    pass
        log = os.path.join(vd, "build.log")
        tmp = exe + ".tmp%d" % os.getpid()
        cmd = (cflags(variant) + ["-I" + os.path.join(VERIF, "harness")] + list(extra_flags) +
               [src, os.path.join(vd, "libinovesa.a")] + LIBS + ["-o", tmp])
        rc, out = _run(cmd, log)
        if rc:
            raise RuntimeError("harness %s failed to compile (%s):\n%s" % (name, variant, out[-4000:]))
        os.rename(tmp, exe)
    return exe


def build_tool(name):
    """Compile /verif/tools/<name>.cpp (independent of the repo tree)."""
    src = os.path.join(VERIF, "tools", name + ".cpp")
    with open(src, "rb") as fh:
        hh = hashlib.sha256(fh.read()).hexdigest()[:12]
    d = os.path.join(CACHE, "tools")
    exe = os.path.join(d, "%s_%s" % (name, hh))
    if os.path.exists(exe):
        return exe
    with Lock(os.path.join(CACHE, "lock.tool." + name)):
        if os.path.exists(exe):
            return exe
        os.makedirs(d, exist_ok=True)
        tmp = exe + ".tmp%d" % os.getpid()
        cmd = ["g++", "-std=c++17", "-O2", "-w"] + INCLUDES + [src] + LIBS + ["-o", tmp]
        p = subprocess.run(cmd, stdout=subprocess.PIPE, stderr=subprocess.STDOUT)
        if p.returncode:
            raise RuntimeError("tool %s failed to compile:\n%s" % (name, p.stdout.decode()[-3000:]))
        os.rename(tmp, exe)
    return exe


def build_shlib(name):
    """Compile /verif/tools/<name>.c into a shared object for LD_PRELOAD (independent of the repo tree)."""
    src = os.path.join(VERIF, "tools", name + ".c")
    with open(src, "rb") as fh:
        hh = hashlib.sha256(fh.read()).hexdigest()[:12]
    d = os.path.join(CACHE, "tools")
    so = os.path.join(d, "%s_%s.so" % (name, hh))
    if os.path.exists(so):
        return so
    with Lock(os.path.join(CACHE, "lock.tool." + name)):
        if os.path.exists(so):
            return so
        os.makedirs(d, exist_ok=True)
        tmp = so + ".tmp%d" % os.getpid()
        p = subprocess.run(["gcc", "-O1", "-shared", "-fPIC", "-w", src, "-o", tmp, "-ldl"], stdout=subprocess.PIPE, stderr=subprocess.STDOUT)
        if p.returncode:
            raise RuntimeError("shared object %s failed to compile:\n%s" % (name, p.stdout.decode()[-3000:]))
        os.rename(tmp, so)
    return so


if __name__ == "__main__":
    for v in sys.argv[1:] or ["rel", "asan"]:
        print(build(v))
