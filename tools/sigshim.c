/* C14: interrupt points *inside* the HDF5 writes of the real program (LD_PRELOAD, no change to the program).
 * Every call of H5Dwrite / H5Dset_extent is an interrupt point: a counter is incremented on entry; if it equals
 * one of the comma separated values in VERIF_SHIM_SIGINT_AT a real SIGINT is raised *before* the library call
 * proceeds, i.e. while the program is inside HDF5File::append / the constructor's axis writes. With VERIF_SHIM_LOG
 * set, "S <counter> <function> [(INJECTED)]" is appended to that file (the guarded hook of src/main.cpp appends
 * its own lines to the same file, which places every call between two interrupt points of main()).
 * VERIF_SHIM_SIGINT_REPEAT=n raises n signals in a row at each chosen call. */
#define _GNU_SOURCE
#include <dlfcn.h>
#include <signal.h>
#include <stdio.h>
#include <stdlib.h>
#include <stdint.h>

static long counter = 0;
static int init = 0, nat = 0;
static long at[16];
static long repeat = 1;     /* VERIF_SHIM_SIGINT_REPEAT: that many signals in a row at each chosen call (a key held down, a wrapper that keeps signalling) */
static FILE* logf = NULL;

static void setup(void)
{
    init = 1;
    const char* s = getenv("VERIF_SHIM_SIGINT_AT");
    while (s && *s && nat < 16) {
        char* end = NULL;
        long v = strtol(s, &end, 10);
        if (end == s) break;
        at[nat++] = v;
        s = (*end == ',') ? end + 1 : end;
    }
    const char* rp = getenv("VERIF_SHIM_SIGINT_REPEAT");
    if (rp && *rp) { repeat = strtol(rp, NULL, 10); if (repeat < 1) repeat = 1; }
    const char* l = getenv("VERIF_SHIM_LOG");
    if (l && *l) logf = fopen(l, "a");
}

static void point(const char* fn)
{
    if (!init) setup();
    counter++;
    int inject = 0;
    for (int i = 0; i < nat; i++) if (at[i] == counter) inject = 1;
    if (logf) { fprintf(logf, "S %ld %s%s\n", counter, fn, inject ? " (INJECTED)" : ""); fflush(logf); }
    if (inject) for (long k = 0; k < repeat; k++) raise(SIGINT);
}

typedef int64_t hid_t_;
int H5Dwrite(hid_t_ dset, hid_t_ mtype, hid_t_ mspace, hid_t_ fspace, hid_t_ plist, const void* buf)
{
    static int (*real)(hid_t_, hid_t_, hid_t_, hid_t_, hid_t_, const void*) = NULL;
    if (!real) real = dlsym(RTLD_NEXT, "H5Dwrite");
    point("H5Dwrite");
    return real(dset, mtype, mspace, fspace, plist, buf);
}

int H5Dset_extent(hid_t_ dset, const unsigned long long* size)
{
    static int (*real)(hid_t_, const unsigned long long*) = NULL;
    if (!real) real = dlsym(RTLD_NEXT, "H5Dset_extent");
    point("H5Dset_extent");
    return real(dset, size);
}
