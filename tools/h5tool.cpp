// h5tool: independent HDF5 <-> npy bridge for the offline oracles.
//   h5tool export in.h5 outdir      every dataset -> outdir/<n>.npy, outdir/manifest.json
//   h5tool mkps out.h5 rank d0 d1 d2 [d3] raw.f32   craft a /PhaseSpace/data start file
// Uses only the HDF5 C API; shares no code with Inovesa.
#include <hdf5.h>
#include <cstdio>
#include <cstdlib>
#include <cstring>
#include <cstdint>
#include <string>
#include <vector>
#include <sstream>
#include <fstream>
#include <cmath>

static std::string jesc(const std::string& s) {
    std::string o;
    for (unsigned char c : s) {
        if (c == '"' || c == '\\') { o += '\\'; o += c; }
        else if (c < 32) { char b[8]; snprintf(b, 8, "\\u%04x", c); o += b; }
        else o += c;
    }
    return o;
}

static std::string jnum(double v) {
    if (std::isnan(v)) return "\"nan\"";
    if (std::isinf(v)) return v > 0 ? "\"inf\"" : "\"-inf\"";
    char b[40]; snprintf(b, 40, "%.17g", v); return b;
}

struct Ctx { std::string outdir; std::ostringstream js; int n = 0; bool first = true; };

static void write_npy(const std::string& path, const char* descr, int rank,
                      const hsize_t* dims, const void* data, size_t bytes) {
    std::ostringstream h;
    h << "{'descr': '" << descr << "', 'fortran_order': False, 'shape': (";
    for (int i = 0; i < rank; i++) { h << dims[i]; if (rank == 1 || i + 1 < rank) h << ","; if (i + 1 < rank) h << " "; }
    h << "), }";
    std::string hs = h.str();
    size_t total = 10 + hs.size() + 1;
    size_t pad = (64 - total % 64) % 64;
    hs += std::string(pad, ' ');
    hs += '\n';
    FILE* f = fopen(path.c_str(), "wb");
    if (!f) { perror(path.c_str()); exit(3); }
    unsigned char magic[10] = {0x93, 'N', 'U', 'M', 'P', 'Y', 1, 0, 0, 0};
    magic[8] = hs.size() & 0xff; magic[9] = (hs.size() >> 8) & 0xff;
    fwrite(magic, 1, 10, f);
    fwrite(hs.data(), 1, hs.size(), f);
    if (bytes) fwrite(data, 1, bytes, f);
    fclose(f);
}

static std::string attrs_json(hid_t obj) {
    std::ostringstream a;
    a << "{";
    H5O_info_t oi;
    H5Oget_info(obj, &oi);
    bool first = true;
    for (hsize_t i = 0; i < oi.num_attrs; i++) {
        hid_t at = H5Aopen_by_idx(obj, ".", H5_INDEX_NAME, H5_ITER_INC, i, H5P_DEFAULT, H5P_DEFAULT);
        if (at < 0) continue;
        char name[256]; H5Aget_name(at, 256, name);
        hid_t ty = H5Aget_type(at);
        hid_t sp = H5Aget_space(at);
        hssize_t np = H5Sget_simple_extent_npoints(sp);
        H5T_class_t cl = H5Tget_class(ty);
        if (np == 1 && (cl == H5T_FLOAT || cl == H5T_INTEGER)) {
            double v = 0;
            if (cl == H5T_FLOAT) { H5Aread(at, H5T_NATIVE_DOUBLE, &v); }
            else if (H5Tget_sign(ty) == H5T_SGN_NONE) { unsigned long long u = 0; H5Aread(at, H5T_NATIVE_ULLONG, &u); v = (double)u; }
            else { long long s = 0; H5Aread(at, H5T_NATIVE_LLONG, &s); v = (double)s; }
            if (!first) a << ","; first = false;
            a << "\"" << jesc(name) << "\":" << jnum(v);
        }
        H5Sclose(sp); H5Tclose(ty); H5Aclose(at);
    }
    a << "}";
    return a.str();
}

static herr_t visit(hid_t root, const char* name, const H5O_info_t* info, void* op) {
    Ctx* c = (Ctx*)op;
    std::string nm = std::string("/") + (strcmp(name, ".") == 0 ? "" : name);
    if (info->type == H5O_TYPE_GROUP) {
        hid_t g = H5Oopen(root, name, H5P_DEFAULT);
        std::string aj = attrs_json(g);
        H5Oclose(g);
        if (aj != "{}") {
            if (!c->first) c->js << ",\n"; c->first = false;
            c->js << "\"" << jesc(nm) << "\":{\"kind\":\"group\",\"attrs\":" << aj << "}";
        }
        return 0;
    }
    if (info->type != H5O_TYPE_DATASET) return 0;
    hid_t ds = H5Dopen2(root, name, H5P_DEFAULT);
    hid_t sp = H5Dget_space(ds);
    hid_t ty = H5Dget_type(ds);
    int rank = H5Sget_simple_extent_ndims(sp);
    std::vector<hsize_t> dims(rank > 0 ? rank : 1, 1);
    if (rank > 0) H5Sget_simple_extent_dims(sp, dims.data(), nullptr);
    size_t np = 1; for (int i = 0; i < rank; i++) np *= dims[i];
    H5T_class_t cl = H5Tget_class(ty);
    size_t sz = H5Tget_size(ty);
    const char* descr = nullptr; hid_t mty = -1; size_t esz = 0;
    if (cl == H5T_FLOAT && sz == 4) { descr = "<f4"; mty = H5T_NATIVE_FLOAT; esz = 4; }
    else if (cl == H5T_FLOAT) { descr = "<f8"; mty = H5T_NATIVE_DOUBLE; esz = 8; }
    else if (cl == H5T_INTEGER && H5Tget_sign(ty) == H5T_SGN_NONE) { descr = "<u8"; mty = H5T_NATIVE_UINT64; esz = 8; }
    else if (cl == H5T_INTEGER) { descr = "<i8"; mty = H5T_NATIVE_INT64; esz = 8; }
    else if (cl == H5T_STRING) { descr = "|S1"; mty = H5T_C_S1; esz = 1; }
    char fn[64]; snprintf(fn, 64, "d%03d.npy", c->n++);
    std::string status = "ok";
    if (descr) {
        std::vector<char> buf(np * esz + 8);
        if (np > 0) {
            herr_t rc = H5Dread(ds, mty, H5S_ALL, H5S_ALL, H5P_DEFAULT, buf.data());
            if (rc < 0) status = "readerror";
        }
        write_npy(c->outdir + "/" + fn, descr, rank, dims.data(), buf.data(), np * esz);
    } else status = "unsupported";
    if (!c->first) c->js << ",\n"; c->first = false;
    c->js << "\"" << jesc(nm) << "\":{\"kind\":\"dataset\",\"file\":\"" << fn << "\",\"status\":\"" << status
          << "\",\"shape\":[";
    for (int i = 0; i < rank; i++) { if (i) c->js << ","; c->js << dims[i]; }
    c->js << "],\"attrs\":" << attrs_json(ds) << "}";
    H5Tclose(ty); H5Sclose(sp); H5Dclose(ds);
    return 0;
}

int main(int argc, char** argv) {
    if (argc >= 4 && !strcmp(argv[1], "export")) {
        H5Eset_auto2(H5E_DEFAULT, nullptr, nullptr);
        hid_t f = H5Fopen(argv[2], H5F_ACC_RDONLY, H5P_DEFAULT);
        if (f < 0) { fprintf(stderr, "cannot open %s\n", argv[2]); return 2; }
        Ctx c; c.outdir = argv[3];
        c.js << "{\n";
        H5Ovisit(f, H5_INDEX_NAME, H5_ITER_INC, visit, &c);
        c.js << "\n}\n";
        std::ofstream(c.outdir + "/manifest.json") << c.js.str();
        H5Fclose(f);
        return 0;
    }
    if (argc >= 7 && !strcmp(argv[1], "mkps")) {
        int rank = atoi(argv[3]);
        if (argc < 5 + rank) return 2;
        std::vector<hsize_t> dims(rank), maxd(rank), chunk(rank);
        size_t np = 1;
        for (int i = 0; i < rank; i++) { dims[i] = strtoull(argv[4 + i], 0, 10); np *= dims[i]; maxd[i] = dims[i]; chunk[i] = dims[i] ? dims[i] : 1; }
        maxd[0] = H5S_UNLIMITED; chunk[0] = 1;
        std::vector<float> data(np + 1);
        FILE* rf = fopen(argv[4 + rank], "rb");
        if (!rf) { perror("raw"); return 2; }
        size_t got = fread(data.data(), 4, np, rf); fclose(rf);
        if (got != np) { fprintf(stderr, "short raw file\n"); return 2; }
        hid_t f = H5Fcreate(argv[2], H5F_ACC_TRUNC, H5P_DEFAULT, H5P_DEFAULT);
        hid_t g = H5Gcreate2(f, "/PhaseSpace", H5P_DEFAULT, H5P_DEFAULT, H5P_DEFAULT);
        hid_t sp = H5Screate_simple(rank, dims.data(), maxd.data());
        hid_t pl = H5Pcreate(H5P_DATASET_CREATE);
        H5Pset_chunk(pl, rank, chunk.data());
        hid_t ds = H5Dcreate2(f, "/PhaseSpace/data", H5T_IEEE_F32LE, sp, H5P_DEFAULT, pl, H5P_DEFAULT);
        if (np) H5Dwrite(ds, H5T_NATIVE_FLOAT, H5S_ALL, H5S_ALL, H5P_DEFAULT, data.data());
        H5Dclose(ds); H5Pclose(pl); H5Sclose(sp); H5Gclose(g); H5Fclose(f);
        return 0;
    }
    fprintf(stderr, "usage: h5tool export in.h5 outdir | mkps out.h5 rank dims... raw.f32\n");
    return 2;
}
