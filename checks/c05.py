"""C05 - the stationary bunch satisfies the Haissinski equation with its own wake."""
import math
import os
import shutil

import numpy as np

from vlib import core, prog, physics

ASSUME = [
    "one case in five gives the step size through StepsPerRevolution (non-integer number of steps per synchrotron period, StepsPerTs left at an unrelated value): a = 2 pi / (steps per period the options imply)",
    "decided only for stationary, below-threshold states: stationarity gate = the last five recorded profiles (one per synchrotron period), each normalised to unit sum, agree to 5e-4 of the peak (runs last 20 damping times); otherwise the case is inconclusive, not a verdict",
    "R(q) = ln rho(q) + q^2/2 - (1/a) * integral W_E dq with a = 2 pi/steps, W_E = stored wake (cells per step) * energy cell size, trapezoid rule on /Info/AxisValues_z; range of R over |q| <= 2 must be <= 1.5*a*(range of the wake term) [kick-drift splitting error] + 0.003 + delta^2 (2*delta^2 unless 4-point interpolation and 4-point derivative) [width error eps*q^2 of the grid's own equilibrium]",
    "sign convention derived from the maps: drift moves charge by -a*p, RF kick by +tan(a)*q, wake kick by -W cells",
    "energy spread of the stationary state within 0.8*delta^2 + 1e-3 of 1",
    "the bunch current is chosen by a pilot run so that the wake term over the core lies between 0.05 and about 1",
    "API complement: a WakePotentialMap driven through sequences of profiles that change by 1e-9 ... 1e-2 per step must, after every update(), act bit-for-bit like a freshly built kick map given the wake potential of the current profile",
    "API complement 2: after every such update the energy centroid of each bunch moves by minus the profile-weighted mean of the recorded wake potential (4e-7*n + 1e-3 relative; interpolation orders 2-4; largest kick per case log-uniform 1e-5 ... 2 cells, so kicks far below a cell are covered; bunches with charge near the energy border skipped)",
    "kick-drift splitting error O(a) limits sensitivity to scale errors of a few per cent (steps per period >= 400)",
]


def gen(seed, i, tier):
    r = core.Rng("c05", seed, i)
    kind = ["resistor", "wall", "csr"][i % 3]
    n = r.choice([128, 129, 192, 256] if tier == "thorough" else [128, 129, 160])        # even and odd meshes
    steps = r.choice([400, 500, 800, 1000])
    if i % 4 == 3:
        n = r.choice([80, 96, 112])              # coarse mesh with very many steps per period: the wake creeps slowly
        steps = r.choice([2000, 3000, 4000])
    d = 12.0 / (n - 1)
    e1 = min(r.uniform(1.5e-3, 3e-3), 0.25 * d * d)
    if i % 4 == 1:
        e1 = r.uniform(0.3, 0.45) * d * d        # upper part of the explicit scheme's stable range (e1/delta^2 < 0.5)
    target = r.loguniform(0.05, 1.0) if kind != 'csr' else r.loguniform(0.05, 0.15)   # shielded CSR goes unstable early
    if i % 4 == 3 and kind != "csr":
        target = max(target, 0.3)                # coarse mesh: the potential well must dominate the discretisation error
    o = dict(GridSize=n, StepsPerTs=steps, outstep=steps, SavePhaseSpace=0)
    if kind == "resistor":
        o["VacuumGap"] = 0
        o["_R"] = r.loguniform(100, 3000)
    elif kind == "wall":
        o["UseCSR"] = False
        o["WallConductivity"] = r.loguniform(1e6, 6e7)
    if r.chance(0.3):
        o["PhaseSpaceShiftX"] = round(r.uniform(-2, 2), 2)
    if r.chance(0.3):
        o["InterpolationPoints"] = 3
    if r.chance(0.5):
        o["InitialDistZoom"] = r.choice([0.7, 1.4])     # relaxation "from any start"
    if i % 5 == 1:
        o["InterpolateClamped"] = True          # (a no-op in the CPU kick maps of this tree; a limiter, where implemented, keeps the equilibrium)
        o["InterpolationPoints"] = 3 if (i // 5) % 2 == 0 else 4
        o["RenormalizeCharge"] = 1              # a limiter does not conserve charge exactly: renormalised every step the end state is strictly stationary
    if i % 4 == 2:
        o["alpha1"] = r.choice([5e-4, -5e-4])   # alpha0/8 (alpha0 is left at its default 4e-3 in these runs): changes the drift by 6e-5 of itself over the bunch - the equilibrium is the same
    # the longitudinal focusing given in its other forms: through the synchrotron frequency (i % 6 in 0, 2), with the sinusoidal RF model
    # (i % 6 in 2, 4; at these bunch lengths k_RF*sigma is a few 1e-3, the well is the parabola to that accuracy), and both together
    if i % 6 in (0, 2):
        o["SynchrotronFrequency"] = float(r.choice([6000, 12000, 22000]))
    if i % 6 in (2, 4):
        o["LinearRF"] = False
    prog.sprinkle(core.Rng("c05nuisance", seed, i), o, cutoff_ok=True, padding_ok=(kind != "resistor"))      # options that must not matter to the equilibrium
    if i % 5 == 4:
        o["_steps_per_revolution"] = True           # step size given per revolution (overrides StepsPerTs, which is left at another value)
    return kind, o, e1, target


def r_decoy(seed, i, steps):
    return core.Rng("c05decoy", seed, i).choice([steps * 2, max(50, steps // 3), 1000 if abs(steps - 1000) > 300 else 250])


def analyse(h, P):
    z = h["/Info/AxisValues_z"].astype(float)
    prof = h["/BunchProfile/data"][:, 0, :].astype(float)
    wake = h["/WakePotential/data"][:, 0, :].astype(float)
    es = h["/EnergySpread/data"][:, 0].astype(float)
    em = h["/EnergyAverage/data"][:, 0].astype(float)
    a = 2 * math.pi / P["steps"]
    rho = prof[-1]
    WE = wake[-1] * P["delta"]
    integ = np.concatenate([[0.0], np.cumsum(0.5 * (WE[1:] + WE[:-1]) * np.diff(z))])
    term = integ / a
    core_sel = (np.abs(z) <= 2.0) & (rho > 0)
    R = np.log(rho[core_sel]) + 0.5 * z[core_sel] ** 2 - term[core_sel]
    Rflip = np.log(rho[core_sel]) + 0.5 * z[core_sel] ** 2 + term[core_sel]
    # shape stationarity (a slow drift of the total charge over tens of thousands of steps only shifts R by a constant)
    shape = prof / np.sum(prof, axis=1, keepdims=True)
    stat = float(np.max(np.abs(shape[-5:] - shape[-1])) / np.max(shape[-1])) if prof.shape[0] >= 6 else 9.0
    return dict(rangeR=float(np.ptp(R)), rangeT=float(np.ptp(term[core_sel])), rangeRflip=float(np.ptp(Rflip)), stationarity=stat,
                spread=float(es[-1]), centroid=float(np.sum(rho * z) / np.sum(rho)),
                late_spread_dev=float(np.max(np.abs(es[-5:] - 1))), late_energy_mean=float(np.max(np.abs(em[-5:]))))


def run_case(args):
    ctx, i, sdir, pool = args
    kind, o, e1, target = gen(ctx.seed, i, ctx.tier)
    run = {k: v for k, v in o.items() if not k.startswith("_")}
    P = physics.derive(run)
    if o.get("_steps_per_revolution"):
        run["StepsPerRevolution"] = round(P["steps"] * 1.0137 * P["fs"] / P["frev"], 6)      # a non-integer number of steps per synchrotron period
        run["StepsPerTs"] = int(r_decoy(ctx.seed, i, P["steps"]))
        P = physics.derive(run)
        run["outstep"] = int(round(P["steps"]))
    td = 2.0 / (P["fs"] * e1 * P["steps"])
    T = float(int(math.ceil(40.0 / (e1 * P["steps"]))) + 6)
    wd = os.path.join(sdir, "c%04d" % i)
    os.makedirs(wd, exist_ok=True)
    out = dict(i=i, kind=kind, opts=dict(run, e1=e1, target=target), viol=[], incon=[], res={})
    if kind == "resistor":
        with open(os.path.join(wd, "imp.dat"), "w") as fh:
            for k in range(P["wake_N"]):
                fh.write("%d %.6g 0\n" % (k, o["_R"] if k <= P["wake_N"] // 2 else 0.0))
        run["Impedance"] = os.path.join(wd, "imp.dat")
    xdg = pool.get()
    try:
        cur = 3e-4
        last = None
        for attempt in range(3):
            oo = dict(run, DampingTime=td, rotations=T if attempt else max(6.0, T / 3), BunchCurrent=[cur], output="o%d.h5" % attempt)
            res = prog.run_inovesa("rel", oo, wd, xdg, timeout=3000)
            bad = prog.program_outcome_key(res)
            if bad or res["rc"] != 0:
                out["incon"].append("run failed: %s %s" % (bad, res["err"][-200:]))
                return out
            h = prog.H5(os.path.join(wd, "o%d.h5" % attempt))
            Pc = physics.derive({k: v for k, v in oo.items() if k != "output"})
            try:
                A = analyse(h, Pc)
            except (ValueError, IndexError, FloatingPointError) as ex:
                # no positive charge inside |q| <= 2, or no records: the run diverged or ended early - not a stationary state, hence not judged
                out["incon"].append("profile not analysable (diverged run?): %s" % str(ex)[:80])
                return out
            if not all(np.isfinite(A[k]) for k in ("rangeR", "rangeT", "stationarity", "spread")):
                out["incon"].append("non-finite profile or wake (diverged run)")
                return out
            last = (A, oo, res)
            if attempt == 0 or not (0.04 <= A["rangeT"] <= 1.6):
                if A["rangeT"] <= 0 or not np.isfinite(A["rangeT"]):
                    out["incon"].append("pilot run has no wake term")
                    return out
                cur = cur * target / A["rangeT"]
                continue
            break
        A, oo, res = last
        out["A"] = A
        out["current"] = oo["BunchCurrent"][0]
        w = dict(options=out["opts"], current=oo["BunchCurrent"][0], cmd=" ".join(res["argv"]), **A)
        # "the energy distribution stays the unit Gaussian": with a weak impedance below threshold this holds at all late times, whether or not
        # the profile has settled to the stationarity gate (coarse bounds: 5 % on the spread, 0.1 sigma on the mean energy over the last five periods)
        out["res"]["late_energy_spread_dev_over_0.05"] = A["late_spread_dev"] / 0.05
        out["res"]["late_mean_energy_over_0.1"] = A["late_energy_mean"] / 0.1
        out["energy_checked"] = 1
        if not (A["late_spread_dev"] <= 0.05 and A["late_energy_mean"] <= 0.1):
            out["viol"].append(("C05:energy_distribution", "with a weak impedance the energy distribution does not stay the unit Gaussian (mean energy / spread over the last five periods)", dict(w)))
        if A["stationarity"] > 5e-4 or not (0.04 <= A["rangeT"] <= 1.6):
            out["incon"].append("not stationary / wake term out of window: stationarity=%.2g wake term range=%.3g" % (A["stationarity"], A["rangeT"]))
            return out
        # a width error eps of the grid's own equilibrium shows up as eps*q^2, i.e. 4*eps over |q| <= 2
        order, deriv = oo.get("InterpolationPoints", 4), oo.get("derivation", 4)
        # splitting error of the kick-drift step (1.5*a of the wake term), width error of the grid's own equilibrium (eps*q^2 over |q|<=2: delta^2 for
        # the 4-point interpolation with the 4-point derivative, 2*delta^2 otherwise) and 0.003; calibrated on the unchanged tree (48 equilibria,
        # seeds 1-4: worst residual 0.3 of this), about three times tighter than the first version (0.05*wake term + 0.01 + 1..3.2 delta^2)
        a_step = 2 * math.pi / Pc["steps"]
        tol = 1.5 * a_step * A["rangeT"] + 0.003 + (1.0 if (order == 4 and deriv == 4) else 2.0) * Pc["delta"] ** 2
        out["res"]["haissinski_residual_over_tol." + kind] = A["rangeR"] / tol
        out["judged"] = 1
        if A["rangeR"] > tol:
            out["viol"].append(("C05:haissinski:" + kind, "stationary profile and its wake do not satisfy the Haissinski equation", dict(w, tol=tol)))
        eps = 0.8 * Pc["delta"] ** 2 + 1e-3
        out["res"]["energy_spread_err_over_eps"] = abs(A["spread"] - 1) / eps
        if abs(A["spread"] - 1) > eps:
            out["viol"].append(("C05:energy_spread", "energy distribution of the stationary state is not the unit Gaussian", dict(w, eps=eps)))
    finally:
        pool.put(xdg)
        shutil.rmtree(wd, ignore_errors=True)
    return out


def run(ctx):
    from checks.c10 import XdgPool
    ctx.assumptions = ASSUME
    ctx.rule = ("case = (impedance: constant resistance file / resistive wall / shielded CSR; grid 128..256; 400..1000 steps per period; damping decrement; target potential-well strength 0.05..1; shift; interpolation) "
                "relaxed for 20 damping times after a pilot run that fixes the current; non-trivial = passed the stationarity gate with the wake term inside the window")
    th = ctx.tier == "thorough"
    core.run_harness(ctx, "c05", 6000 if th else 400)
    core.run_harness(ctx, "c05", 400 if th else 48, variant="asan")
    n = 150 if th else 12
    sdir = ctx.scratch()
    pool = XdgPool(sdir, core.NCPU)
    for res in core.pmap(run_case, [(ctx, i, sdir, pool) for i in range(n)]):
        for x in res["incon"]:
            ctx.inconcl("case %d (%s): %s" % (res["i"], res["kind"], x))
        if res.get("energy_checked") and not res.get("judged"):
            ctx.ev("late_energy_distributions_checked")
            for k, v in res["res"].items():
                ctx.residual(k, v, 1.0)
            for key, what, det in res["viol"]:
                ctx.violation(key, what, det)
        if not res.get("judged"):
            continue
        ctx.ev("late_energy_distributions_checked")
        ctx.case("c05:%s" % sorted(res["opts"].items()))
        ctx.ev("equilibria_judged")
        ctx.ev("equilibria." + res["kind"])
        if "SynchrotronFrequency" in res["opts"]:
            ctx.ev("equilibria_with_the_synchrotron_frequency_given")
        if res["opts"].get("LinearRF") is False:
            ctx.ev("equilibria_with_sinusoidal_rf")
        for k, v in res["res"].items():
            ctx.residual(k, v, 1.0)
        for key, what, det in res["viol"]:
            ctx.violation(key, what, det)
        ctx.sample(dict(kind=res["kind"], options=res["opts"], current=res["current"], **res["A"]))
    ctx.min_events = {"updates_checked": 5000, "kick_centroids_checked": 3000, "kick_centroids_checked_below_1e-3_cell": 300, "equilibria_judged": max(4, n // 2), "equilibria.resistor": 1, "equilibria.wall": 1, "equilibria.csr": 1}
