"""C09 program part: the periodic renormalisation of main()'s loop (RenormalizeCharge = r > 0) restores every bunch's share.
At an output step that is a multiple of r the phase space is saved right after the rescaling of that step, so each
bunch of that record must integrate (Simpson weights, as the code base defines 'integrates to') to its share."""
import os
import shutil

import numpy as np

from vlib import core, prog, physics, h5oracle


def run(ctx):
    sdir = ctx.scratch()
    n = 48 if ctx.tier == "thorough" else 8

    def one(i):
        r = core.Rng("c09prog", ctx.seed, i)
        d = os.path.join(sdir, "r%03d" % i)
        os.makedirs(d, exist_ok=True)
        g = r.choice([32, 48, 64])
        steps = r.choice([50, 100])
        rn = [1, 2, 3, 5, 8, 2, 3][i % 7]
        outstep = r.choice([k for k in (4, 6, 7, 10, 15) if k != rn])
        o = dict(GridSize=g, StepsPerTs=steps, rotations=r.choice([1.0, 1.5, 2.0]), outstep=outstep, SavePhaseSpace=1, RenormalizeCharge=rn,
                 InitialDistZoom=r.choice([1.0, 1.6, 2.0, 2.3]), output="o.h5")       # wide starts lose charge at the border: something to renormalise
        pat = i % 3
        a = round(r.loguniform(1e-4, 6e-4), 7)
        if pat == 1:
            o["BunchCurrent"] = [a, round(a * r.choice([1.0, 3.0]), 7)]
        elif pat == 2:
            o["BunchCurrent"] = [a, 0.0, round(a * r.choice([0.5, 2.0]), 7)]
        else:
            o["BunchCurrent"] = [a]
        if pat:
            o["HarmonicNumber"] = r.choice([300, 400])
        if r.chance(0.5):
            o["VacuumGap"] = 0
        if i % 4 == 1:
            # no impedance, and a last step that is neither an output step nor a renormalisation step: the final record is written by its own
            # code after the loop, with whatever profile the loop left behind
            o.update(VacuumGap=0, rotations=1.0, RenormalizeCharge=r.choice([3, 7]), outstep=r.choice([6, 15]))
            rn = o["RenormalizeCharge"]
        out = dict(i=i, opts=o, viol=[], checked=0, worst=0.0, drift=0.0)
        res = prog.run_inovesa("rel", o, d, os.path.join(d, "xdg"), timeout=900)
        out["cmd"] = " ".join(res["argv"])
        if prog.program_outcome_key(res) or res["rc"] != 0:
            out["incon"] = "run failed: " + res["err"][-200:]
            return out
        P = physics.derive({k: v for k, v in o.items() if k != "output"})
        h = prog.H5(os.path.join(d, "o.h5"))
        psd = h["/PhaseSpace/data"].astype(np.float64)
        idx = h5oracle.step_index(h, P["steps"], "/PhaseSpace/axis0")
        z = h["/Info/AxisValues_z"].astype(np.float64)
        ws = prog.simpson_weights(g, 1.0)          # cell size 1: the integral is compared as a ratio to the total of the record
        shares = [c / sum(o["BunchCurrent"]) for c in o["BunchCurrent"] if c > 0]
        if psd.shape[1] != len(shares):
            out["incon"] = "unexpected number of bunches in the file"
            return out
        # absolute scale: the first record (start distribution, normalised at set-up) fixes what 'one' is in stored units
        I0 = np.array([ws @ psd[idx[0], b] @ ws for b in range(psd.shape[1])]) if 0 in idx else None
        if I0 is None or not np.all(np.isfinite(I0)) or I0.sum() <= 0:
            out["incon"] = "no usable first record"
            return out
        unit = I0.sum()
        for step, rec in sorted(idx.items()):
            if not np.all(np.isfinite(psd[rec])):
                break
            I = np.array([ws @ psd[rec, b] @ ws for b in range(psd.shape[1])]) / unit
            if step % rn != 0:
                out["drift"] = max(out["drift"], float(abs(I.sum() - 1)))
                continue
            for b, sh in enumerate(shares):
                out["checked"] += 1
                err = abs(I[b] - sh) / sh
                out["worst"] = max(out["worst"], err)
                if err > 2e-5 and not out["viol"]:
                    out["viol"].append(("C09:prog:share_after_renormalisation", "a phase space saved right after the periodic renormalisation does not integrate to the bunch's share",
                                        dict(options=o, cmd=out["cmd"], step=int(step), bunch=b, share=sh, integral=float(I[b]), total=float(I.sum()))))
        # reported moments of every bunch = moments of that bunch's own stored profiles (records that are not renormalised in that step,
        # so that profile, charge and moments describe one and the same grid)
        tsteps = np.rint(h["/Info/AxisValues_t"].astype(np.float64) * P["steps"]).astype(int)
        pe = h["/Info/AxisValues_E"].astype(np.float64)
        for (nm, prof_ds, ax, mean_ds, rms_ds) in (("position", "/BunchProfile/data", z, "/BunchPosition/data", "/BunchLength/data"),
                                                   ("energy", "/EnergyProfile/data", pe, "/EnergyAverage/data", "/EnergySpread/data")):
            pr, mr, sr = h[prof_ds].astype(np.float64), h[mean_ds].astype(np.float64), h[rms_ds].astype(np.float64)
            for rec, step in enumerate(tsteps):
                if step % rn == 0 or rec >= pr.shape[0] or not np.all(np.isfinite(pr[rec])):
                    continue
                for b in range(pr.shape[1]):
                    s0 = pr[rec, b].sum()
                    if not (s0 > 0):
                        continue
                    m1 = float((pr[rec, b] * ax).sum() / s0)
                    v = float((pr[rec, b] * (ax - m1) ** 2).sum() / s0)
                    if not (v > 1e-6):
                        continue
                    sd = v ** 0.5
                    out["moments"] = out.get("moments", 0) + 1
                    e = max(abs(mr[rec, b] - m1), abs(sr[rec, b] - sd)) / (2e-3 * sd + 1e-4)
                    out["worst_m"] = max(out.get("worst_m", 0.0), e)
                    if e > 1 and not any(k.startswith("C09:prog:moment") for k, _, _ in out["viol"]):
                        out["viol"].append(("C09:prog:moment:" + nm + (":bunch>0" if b else ""), "a bunch's reported mean/width in the results file is not the first/second moment of that bunch's own recorded profile",
                                            dict(options=o, cmd=out["cmd"], step=int(step), bunch=b, reported_mean=float(mr[rec, b]), mean_of_profile=m1, reported_width=float(sr[rec, b]), width_of_profile=sd)))
        # ... and of the phase space stored in the same record (records that are not renormalised in that step): position and length are
        # moments of *that* distribution, whenever the profile the program derives them from was last refreshed
        trec = {int(st): k for k, st in enumerate(tsteps)}
        zl = h["/BunchPosition/data"].astype(np.float64)
        sl = h["/BunchLength/data"].astype(np.float64)
        el = h["/EnergyAverage/data"].astype(np.float64)
        esl = h["/EnergySpread/data"].astype(np.float64)
        for step, rec in sorted(idx.items()):
            if step % rn == 0 or step not in trec or not np.all(np.isfinite(psd[rec])):
                continue
            for b in range(psd.shape[1]):
                for (nm, prof, ax, mrep, srep) in (("position", psd[rec, b] @ ws, z, zl, sl), ("energy", ws @ psd[rec, b], pe, el, esl)):
                    s0 = prof.sum()
                    if not (s0 > 0):
                        continue
                    m1 = float((prof * ax).sum() / s0)
                    v = float((prof * (ax - m1) ** 2).sum() / s0)
                    if not (v > 1e-6):
                        continue
                    sd = v ** 0.5
                    out["moments_ps"] = out.get("moments_ps", 0) + 1
                    if step == max(idx):
                        out["final_ps"] = out.get("final_ps", 0) + 1
                    e = max(abs(mrep[trec[step], b] - m1), abs(srep[trec[step], b] - sd)) / (2e-3 * sd + 1e-4)
                    out["worst_mps"] = max(out.get("worst_mps", 0.0), e)
                    if e > 1 and not any(k.startswith("C09:prog:moment_vs_phase_space") for k, _, _ in out["viol"]):
                        out["viol"].append(("C09:prog:moment_vs_phase_space:" + nm + (":final_record" if step == max(idx) else ""),
                                            "a bunch's reported mean/width is not the first/second moment of the phase space stored in the same record",
                                            dict(options=o, cmd=out["cmd"], step=int(step), bunch=b, reported_mean=float(mrep[trec[step], b]), mean_of_phase_space=m1,
                                                 reported_width=float(srep[trec[step], b]), width_of_phase_space=sd)))
        shutil.rmtree(d, ignore_errors=True)
        return out

    for res in core.pmap(one, list(range(n))):
        if "incon" in res:
            ctx.inconcl("program run %d: %s" % (res["i"], res["incon"]))
            continue
        ctx.case("prog:%s" % sorted((k, str(v)) for k, v in res["opts"].items()))
        ctx.ev("program_runs")
        ctx.ev("program_renormalised_records_checked", res["checked"])
        if res["drift"] > 1e-4:
            ctx.ev("program_runs_with_charge_drift_between_renormalisations")
        ctx.residual("prog.share_err_after_renormalisation", res["worst"], 2e-5)
        ctx.ev("program_bunch_moments_checked", res.get("moments", 0))
        ctx.ev("program_bunch_moments_checked_against_the_stored_phase_space", res.get("moments_ps", 0))
        ctx.ev("program_final_records_checked_against_the_stored_phase_space", res.get("final_ps", 0))
        if "worst_mps" in res:
            ctx.residual("prog.moment_vs_stored_phase_space_over_tol", res["worst_mps"], 1.0)
        if "worst_m" in res:
            ctx.residual("prog.moment_vs_own_profile_over_tol", res["worst_m"], 1.0)
        for key, what, det in res["viol"]:
            ctx.violation(key, what, det)
    ctx.min_events["program_runs"] = max(3, n // 2)
    ctx.min_events["program_renormalised_records_checked"] = 20
    ctx.min_events["program_bunch_moments_checked"] = 100
    ctx.min_events["program_bunch_moments_checked_against_the_stored_phase_space"] = 100
    ctx.min_events["program_final_records_checked_against_the_stored_phase_space"] = 2
    ctx.min_events["program_runs_with_charge_drift_between_renormalisations"] = 1
