"""C08 - in a multi-bunch run every bunch evolves exactly as it would on its own."""
from vlib import core

ASSUME = [
    "comparison is bit-for-bit (+0/-0 identified) between a bunch's slice of the train result and a freshly built single-bunch map applied to the same data in the same process",
    "wake map: the single-bunch reference is a y-kick map given bunch b's block of the wake potential the train computed (the convolution itself is C06's subject)",
    "program part: equal currents in 2 or 4 buckets, so that a bunch is the single-bunch run scaled by a power of two: compared bit-for-bit for all values above 1e-30 (scaling is not exact for subnormal numbers in the grid corners; those must agree to 1e-36)",
    "generic x-kicks are exercised with the same field for every bunch (the only x-kick of the solver, the drift, has one field for all bunches)",
]


def run(ctx):
    ctx.assumptions = ASSUME
    ctx.rule = ("case = (map kind of 8, grid 8..96, 2-4 bunches, order 1-4, grid shift, per-bunch displacement fields, data flavour); "
                "distinct by hash(kind,n,nb,order,data)")
    th = ctx.tier == "thorough"
    core.run_harness(ctx, "c08", 40000 if th else 1600)
    core.run_harness(ctx, "c08", 2000 if th else 160, variant="asan")
    ctx.min_events = {"bunch_slices_compared": 2000, "noninterference_slices": 1000,
                      "identical_bunch_pairs": 50, "slices.wake": 100}
    try:
        from checks import c08_prog
        c08_prog.run(ctx)
    except ImportError:
        pass
