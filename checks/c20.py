"""C20 - command line beats config file beats default; legacy aliases are honoured."""
import os

from vlib import core, prog, physics

ASSUME = [
    "the same option given under both its legacy and its current name in one source is unspecified and not generated",
    "'-5' for an unsigned option is accepted (and wrapped) by boost and is not counted as malformed",
    "compatibility-only options (HaissinskiIterations, InitialDistParam, RotationType, SaveSourceMap) must leave every other getter unchanged; their own storage getters are not compared",
    "values are compared exactly (hex float representation of the getter results against the value the oracle parsed from the same token with strtof/strtod semantics of printf %.9g/%.17g round trips)",
    "file-name part: '/dev/null' as a file name means 'none' (documented for --config, --InitialDistFile, --output); the first record of a run started from a stored distribution equals that stored record's profile to 1e-5",
    "process part: unknown option / malformed value must give a message and a failure status; a missing config file a message; none may log 'Starting the simulation'",
]

MALFORMED = [("GridSize", "abc"), ("GridSize", "12.5"), ("outstep", "x7"), ("StepsPerTs", ""), ("alpha0", "four"), ("BeamEnergy", "1.3e9eV"),
             ("UseCSR", "maybe"), ("RenormalizeCharge", "1.5"), ("InitialDistStep", "last"), ("padding", "8,0"), ("rotations", "--"),
             ("BunchCurrent", "1mA"), ("FPType", "full"), ("LinearRF", "2")]


def process_part(ctx):
    sdir = ctx.scratch()
    wd = os.path.join(sdir, "proc")
    os.makedirs(wd, exist_ok=True)
    xdg = os.path.join(wd, "xdg")
    r = core.Rng("c20proc", ctx.seed)
    cases = []
    for nm in ("NoSuchOption", "gridsize", "Outstep", "alpha3", "steps", "SyncFreq", "HaissinskiIterations"):
        cases.append(("unknown_cli", ["--" + nm, "3"], None, True))
    for nm in ("NoSuchOption", "gridsize", "unknown.key", "Alpha0"):
        cases.append(("unknown_cfg", [], "%s=3\n" % nm, True))
    for nm, val in MALFORMED:
        cases.append(("malformed_cli", ["--" + nm, val], None, True))
        if val:
            cases.append(("malformed_cfg", [], "%s=%s\n" % (nm, val), True))
    # the same mistakes on a last line that has no final newline
    cases.append(("unknown_cfg", [], "GridSize=32\nNoSuchOption=1", True))
    cases.append(("malformed_cfg", [], "GridSize=32\nalpha0=abc", True))
    cases.append(("malformed_cfg", [], "StepsPerTs=-x", True))
    cases.append(("missing_cfg", ["--config", "does_not_exist.cfg"], None, False))
    cases.append(("missing_cfg", ["--config", "dir/also/missing.cfg"], None, False))
    cases.append(("missing_cfg", ["--config", "sub/default.cfg"], None, False))      # (only the implicit ./default.cfg may be absent silently)
    cases.append(("missing_cfg", ["--config", "./default.cfg"], None, False))
    cases.append(("missing_cfg", ["--config", "/nonexistent/dir/default.cfg"], None, False))
    cases.append(("garbage_cfg", [], "\x00\x01\x02 not a config [[[\n=\n", True))
    cases.append(("section_cfg", [], "[section\nGridSize=32\n", True))

    def one(ic):
        i, (kind, extra, cfgtext, must_fail) = ic
        d = os.path.join(wd, "p%03d" % i)
        os.makedirs(d, exist_ok=True)
        argv_extra = list(extra)
        cfg = "/dev/null"
        if cfgtext is not None:
            with open(os.path.join(d, "in.cfg"), "w") as fh:
                fh.write(cfgtext)
            cfg = "in.cfg"
        if kind == "missing_cfg":
            res = prog.run_inovesa("rel", dict(GridSize=32, rotations=0.05, StepsPerTs=40, output="o.h5"), d, xdg, timeout=120, config=extra[1])
        else:
            base = dict(GridSize=32, rotations=0.05, StepsPerTs=40, output="o.h5")
            if cfgtext is not None:
                base.pop(cfgtext.split("=")[0].strip(), None)     # an option given on the command line is never read from the file
            # a third of these runs in a process environment that differs in things that are no option (prog.envmix): locale names, HOME, TZ, umask
            res = prog.run_inovesa("rel", base, d, xdg, timeout=120, extra_args=argv_extra, config=cfg, env=prog.envmix(core.Rng("c20env", ctx.seed, i), 0.34)[0])
        return kind, extra, cfgtext, must_fail, res, os.path.exists(os.path.join(d, "o.h5"))

    for kind, extra, cfgtext, must_fail, res, created in core.pmap(one, list(enumerate(cases))):
        ctx.case("proc:%s:%s:%s" % (kind, extra, cfgtext))
        ctx.ev("process_runs")
        w = dict(kind=kind, args=extra, config=cfgtext, rc=res["rc"], stdout=res["out"][-300:], stderr=res["err"][-300:], cmd=" ".join(res["argv"]))
        bad = prog.program_outcome_key(res)
        if bad:
            ctx.violation("C20:process:%s:%s" % (kind, bad[0].split(":")[0]), "invalid input does not stop the program cleanly: " + bad[1], w)
            continue
        said = len((res["out"] + res["err"]).strip()) > 0
        started = "Starting the simulation" in res["out"]
        if started or created:
            ctx.violation("C20:process:%s:simulated" % kind, "invalid input did not stop the program before anything is simulated", w)
        elif not said:
            ctx.violation("C20:process:%s:silent" % kind, "invalid input stops the program without a message", w)
        elif must_fail and res["rc"] == 0:
            ctx.violation("C20:process:%s:success_status" % kind, "unknown option / malformed value ends with a success status", w)


def effective_part(ctx):
    """The value that takes effect inside the program (not only in the getters): the step size implied by StepsPerTs / StepsPerRevolution given on
    the command line, in the config file, or in both, as the program reports it in its log."""
    import re
    sdir = os.path.join(ctx.scratch(), "eff")
    os.makedirs(sdir, exist_ok=True)
    n = 36 if ctx.tier == "thorough" else 12

    def one(i):
        r = core.Rng("c20eff", ctx.seed, i)
        d = os.path.join(sdir, "e%02d" % i)
        os.makedirs(d, exist_ok=True)
        name = ["StepsPerRevolution", "StepsPerTs", "DampingTime"][i % 3]
        per_rev = (name == "StepsPerRevolution")
        def val():
            if name == "DampingTime":
                # (0 is a legal value with a meaning of its own: no Fokker-Planck term; negative: calculate from the ring parameters)
                return r.choice([0.0, 0.0, 2e-3, 5e-3, 1.3e-2, -1.0])
            return round(r.uniform(0.2, 3.0), 4) if per_rev else r.randint(30, 900)
        where = ["cli", "cfg", "both", "cfg_alias" if name == "StepsPerTs" else "both"][i % 4]
        vcli, vcfg = val(), val()
        if name == "DampingTime" and where == "both":
            for _ in range(6):
                if vcli != vcfg:
                    break
                vcfg = val()
        opts = dict(GridSize=32, rotations=0.02, output="o.h5", verbose=True)
        cfgtext = ""
        if where in ("cli", "both"):
            opts[name] = vcli
        if where in ("cfg", "both"):
            cfgtext = "%s=%s\n" % (name, vcfg)
        if where == "cfg_alias":
            cfgtext = "steps=%s\n" % vcfg
        with open(os.path.join(d, "in.cfg"), "w") as fh:
            fh.write(cfgtext)
        eff = vcli if where in ("cli", "both") else vcfg
        res = prog.run_inovesa("rel", opts, d, os.path.join(sdir, "xdg%d" % (i % 4)), timeout=120, config="in.cfg", env=prog.envmix(core.Rng("c20env2", ctx.seed, i), 0.5)[0])
        P = physics.derive({name: eff})
        m = re.search(r"Doing ([0-9.eE+-]+) simulation steps per (synchrotron|revolution) period", res["out"])
        return dict(i=i, name=name, where=where, cli=vcli, cfg=vcfg, effective=eff, res=res, m=m, P=P, cfgtext=cfgtext)

    for o in core.pmap(one, list(range(n))):
        res = o["res"]
        w = dict(option=o["name"], placed=o["where"], command_line_value=o["cli"], config_value=o["cfg"], config=o["cfgtext"], cmd=" ".join(res["argv"]))
        if res["rc"] != 0 or not o["m"]:
            ctx.inconcl("effective-value run %d failed or did not report its step size: %s" % (o["i"], res["err"][-200:]))
            continue
        ctx.case("eff:%s:%s:%s:%s" % (o["name"], o["where"], o["cli"], o["cfg"]))
        ctx.ev("effective_values_checked_in_program_runs")
        if o["name"] == "DampingTime":
            # what takes effect: no Fokker-Planck term for 0, the given damping time for a positive value (the program reports
            # 1/(t_damp*f_s*2 pi) as "damping beta"), the calculated one for a negative value
            eff, out = o["effective"], res["out"]
            ctx.ev("effective_damping_times_checked")
            mb = re.search(r"damping beta: ([0-9.eE+-]+)", out)
            P = o["P"]
            if eff == 0:
                okd = "Fokker-Planck-Term is neglected" in out and not mb
                want = "no Fokker-Planck term"
            elif eff > 0:
                okd = bool(mb) and abs(float(mb.group(1)) * eff * P["fs"] * 2 * 3.141592653589793 - 1) < 1e-4
                want = "damping beta %.6e" % (1 / (eff * P["fs"] * 2 * 3.141592653589793))
            else:
                okd = bool(mb) and "(set value" not in out
                want = "damping time calculated from the ring parameters"
            if not okd:
                ctx.violation("C20:effective:DampingTime:" + o["where"], "the damping the program reports is not the one implied by the option value with the highest precedence",
                              dict(w, effective_value=eff, expected=want, reported=(mb.group(0) if mb else "Fokker-Planck-Term is neglected" if "neglected" in out else "nothing")))
            continue
        got, unit = float(o["m"].group(1)), o["m"].group(2)
        P = o["P"]
        want = P["steps"] if unit == "synchrotron" else P["steps"] * P["fs"] / P["frev"]      # steps per synchrotron period / per revolution
        if not ctx.residual("prog.effective_step_size_err_over_tol", abs(got - want) / (2e-6 * abs(want) + 1e-6), 1.0):      # (printed with six decimals)
            ctx.violation("C20:effective:" + o["name"] + ":" + o["where"], "the step size the program reports is not the one implied by the option value with the highest precedence",
                          dict(w, reported=got, unit=unit, expected=want))


def filename_part(ctx):
    """File-name options as they take effect in the program: a name (or the documented '/dev/null' = none) on the command line beats the
    one in a loaded config file, for the start distribution and for the results file."""
    import numpy as np
    sdir = os.path.join(ctx.scratch(), "fn")
    os.makedirs(sdir, exist_ok=True)
    xdg = os.path.join(sdir, "xdg")
    base = dict(GridSize=32, rotations=0.05, StepsPerTs=40, VacuumGap=0, outstep=1)
    # a start file that is unmistakably not the built-in start: a run with a zoomed start distribution, stored
    r0 = prog.run_inovesa("rel", dict(base, output="start.h5", SavePhaseSpace=1, InitialDistZoom=0.5), sdir, xdg, timeout=120)
    rf = prog.run_inovesa("rel", dict(base, output="fresh.h5"), sdir, xdg, timeout=120)
    if r0["rc"] != 0 or rf["rc"] != 0:
        ctx.inconcl("file-name part: preparatory runs failed: %s" % (r0["err"] + rf["err"])[-200:])
        return
    fresh0 = prog.H5(os.path.join(sdir, "fresh.h5"))["/BunchProfile/data"][0]
    zoom0 = prog.H5(os.path.join(sdir, "start.h5"))["/BunchProfile/data"][-1]       # (the default start record is the last one stored)
    start = os.path.join(sdir, "start.h5")
    cases = [
        ("start_from_cfg", "InitialDistFile=%s\n" % start, {}, "zoom", "o.h5"),
        ("start_cli_devnull_over_cfg", "InitialDistFile=%s\n" % start, {"InitialDistFile": "/dev/null"}, "fresh", "o.h5"),
        ("start_cli_devnull_plain_cfg", "GridSize=32\n", {"InitialDistFile": "/dev/null"}, "fresh", "o.h5"),
        ("start_cfg_devnull", "InitialDistFile=/dev/null\n", {}, "fresh", "o.h5"),
        ("start_cli_over_cfg_devnull", "InitialDistFile=/dev/null\n", {"InitialDistFile": start}, "zoom", "o.h5"),
        ("output_cli_over_cfg", "output=fromcfg.h5\n", {"output": "fromcli.h5"}, "fresh", "fromcli.h5"),
        ("output_from_cfg", "output=fromcfg.h5\n", {"output": None}, "fresh", "fromcfg.h5"),
    ]

    def one(ic):
        i, (name, cfgtext, cli, want, outname) = ic
        d = os.path.join(sdir, "f%02d" % i)
        os.makedirs(d, exist_ok=True)
        with open(os.path.join(d, "in.cfg"), "w") as fh:
            fh.write(cfgtext)
        o = dict(base, output="o.h5")
        for k, v in cli.items():
            if v is None:
                o.pop(k, None)
            else:
                o[k] = v
        res = prog.run_inovesa("rel", o, d, xdg, timeout=120, config="in.cfg")
        return dict(name=name, res=res, d=d, want=want, outname=outname, cfgtext=cfgtext)

    for o in core.pmap(one, list(enumerate(cases))):
        res = o["res"]
        ctx.case("filename:" + o["name"])
        ctx.ev("file_name_precedence_runs")
        w = dict(case=o["name"], config=o["cfgtext"], cmd=" ".join(res["argv"]), stdout=res["out"][-300:], stderr=res["err"][-300:])
        bad = prog.program_outcome_key(res)
        f = os.path.join(o["d"], o["outname"])
        others = [x for x in ("o.h5", "fromcfg.h5", "fromcli.h5") if x != o["outname"] and os.path.exists(os.path.join(o["d"], x))]
        if bad or res["rc"] != 0 or "Starting the simulation" not in res["out"] or not os.path.exists(f):
            ctx.violation("C20:effective:filename:" + o["name"] + ":not_run", "a valid combination of file names on the command line and in the config file does not run / does not write the results file named with the highest precedence", dict(w, results_file_exists=os.path.exists(f)))
            continue
        if others:
            ctx.violation("C20:effective:filename:" + o["name"] + ":other_file", "a results file under the name with the lower precedence was written", dict(w, files=others))
            continue
        got0 = prog.H5(f)["/BunchProfile/data"][0]
        ref = fresh0 if o["want"] == "fresh" else zoom0
        oth = zoom0 if o["want"] == "fresh" else fresh0
        e_ref = float(np.max(np.abs(got0.astype(float) - ref)) / np.max(np.abs(ref)))
        e_oth = float(np.max(np.abs(got0.astype(float) - oth)) / np.max(np.abs(oth)))
        if not (e_ref < 1e-5 and e_oth > 1e-2):
            ctx.violation("C20:effective:filename:" + o["name"] + ":wrong_start", "the run did not start from the distribution named with the highest precedence", dict(w, dev_from_expected=e_ref, dev_from_other=e_oth))


def history_part(ctx):
    """'... else the documented default': what an option that is given nowhere evaluates to must not depend on what earlier runs left behind at the
    target path or in the working directory (a results file, the .cfg the program saved next to it, a log) - the run is started without any
    --config option, a second time into the same output path with fewer options, and compared with the same invocation into a fresh directory."""
    sdir = os.path.join(ctx.scratch(), "hist")
    os.makedirs(sdir, exist_ok=True)
    xdg = os.path.join(sdir, "xdg")
    r = core.Rng("c20hist", ctx.seed)
    small = dict(GridSize=32, rotations=0.02, StepsPerTs=40)
    earlier = [dict(BeamEnergy=2.5e9, BunchCurrent=[2e-3]), dict(AcceleratingVoltage=7e5, HarmonicNumber=200, DampingTime=0.02), dict(VacuumGap=0.05, BendingRadius=6.0, alpha0=2e-3),
               dict(Impedance="/dev/null", CutoffFreq=1e10, padding=4.0)]

    def one(i):
        d, dref = os.path.join(sdir, "h%d" % i), os.path.join(sdir, "h%dref" % i)
        os.makedirs(d, exist_ok=True); os.makedirs(dref, exist_ok=True)
        outname = ["o.h5", os.path.join(d, "o.h5"), "sub/o.h5", "o.h5"][i % 4]
        os.makedirs(os.path.join(d, "sub"), exist_ok=True); os.makedirs(os.path.join(dref, "sub"), exist_ok=True)
        logopt = {"verbose": True} if i % 2 else {}
        ra = prog.run_inovesa("rel", dict(small, output=outname, **dict(earlier[i % len(earlier)], **logopt)), d, xdg, timeout=120, config=False)
        rb = prog.run_inovesa("rel", dict(small, output=outname), d, xdg, timeout=120, config=False)
        refname = os.path.join(dref, "o.h5") if os.path.isabs(outname) else outname
        rr = prog.run_inovesa("rel", dict(small, output=refname), dref, xdg, timeout=120, config=False)
        return dict(i=i, ra=ra, rb=rb, rr=rr, fb=os.path.join(d, outname), fr=os.path.join(dref, refname), earlier=earlier[i % len(earlier)])

    for o in core.pmap(one, list(range(4))):
        ctx.case("history:%d" % o["i"])
        w = dict(earlier_run_options=o["earlier"], cmd_earlier=" ".join(o["ra"]["argv"]), cmd=" ".join(o["rb"]["argv"]), cmd_fresh_directory=" ".join(o["rr"]["argv"]))
        if any(prog.program_outcome_key(x) or x["rc"] != 0 for x in (o["ra"], o["rb"], o["rr"])) or not (os.path.exists(o["fb"]) and os.path.exists(o["fr"])):
            ctx.inconcl("history part %d: a run failed: %s" % (o["i"], (o["ra"]["err"] + o["rb"]["err"] + o["rr"]["err"])[-200:]))
            continue
        pb, pr = prog.H5(o["fb"]).params(), prog.H5(o["fr"]).params()
        ctx.ev("runs_into_a_path_with_history", 1)
        ctx.ev("effective_values_compared_with_a_fresh_directory", len(pr))
        diff = sorted(k for k in set(pb) | set(pr) if repr(pb.get(k)) != repr(pr.get(k)))
        if diff:
            ctx.violation("C20:effective:history:" + diff[0], "options given nowhere do not take their defaults when an earlier run left files at the target path: the effective values differ from the same invocation in a fresh directory",
                          dict(w, differing=dict((k, [repr(pb.get(k)), repr(pr.get(k))]) for k in diff[:8])))


def run(ctx):
    ctx.assumptions = ASSUME
    ctx.rule = ("API: every option independently placed on the command line / in the config file / in both (different values) / nowhere, with random legal values (incl. values needing 9/17 digits, 1-5 bunch currents), "
                "legacy aliases in the config file, compatibility-only options; distinct by hash of (argv, config text). Process: unknown options, malformed values per type, missing/garbage config files")
    th = ctx.tier == "thorough"
    core.run_harness(ctx, "c20", 200000 if th else 4000, args=["--mode", "c20"])
    core.run_harness(ctx, "c20", 4000 if th else 320, variant="asan", args=["--mode", "c20"])
    process_part(ctx)
    effective_part(ctx)
    filename_part(ctx)
    history_part(ctx)
    ctx.min_events = {"file_name_precedence_runs": 6, "parses": 2000, "option_values_checked": 100000, "cli_vs_config_conflicts_checked": 3000, "alias_uses_checked": 500, "process_runs": 30, "effective_values_checked_in_program_runs": 6, "effective_damping_times_checked": 2, "runs_into_a_path_with_history": 3}
