"""C20 - command line beats config file beats default; legacy aliases are honoured."""
import os

from vlib import core, prog

ASSUME = [
    "the same option given under both its legacy and its current name in one source is unspecified and not generated",
    "'-5' for an unsigned option is accepted (and wrapped) by boost and is not counted as malformed",
    "compatibility-only options (HaissinskiIterations, InitialDistParam, RotationType, SaveSourceMap) must leave every other getter unchanged; their own storage getters are not compared",
    "values are compared exactly (hex float representation of the getter results against the value the oracle parsed from the same token with strtof/strtod semantics of printf %.9g/%.17g round trips)",
    "process part: unknown option / malformed value must give a message and a failure status; a missing config file a message; none may log 'Starting the simulation'",
]

MALFORMED = [("GridSize", "abc"), ("GridSize", "12.5"), ("outstep", "x7"), ("StepsPerTs", ""), ("alpha0", "four"), ("BeamEnergy", "1.3e9eV"),
             ("UseCSR", "maybe"), ("RenormalizeCharge", "1.5"), ("InitialDistStep", "last"), ("padding", "8,0"), ("rotations", "--"),
             ("BunchCurrent", "1mA"), ("FPType", "full"), ("LinearRF", "2")]


def process_part(ctx):
    sdir = ctx.scratch()
    wd = os.path.join(sdir, "proc")
    os.makedirs(wd, exist_ok=True)
    xdg = os.path.join(wd, "xdg")
    r = core.Rng("c20proc", ctx.seed)
    cases = []
    for nm in ("NoSuchOption", "gridsize", "Outstep", "alpha3", "steps", "SyncFreq", "HaissinskiIterations"):
        cases.append(("unknown_cli", ["--" + nm, "3"], None, True))
    for nm in ("NoSuchOption", "gridsize", "unknown.key", "Alpha0"):
        cases.append(("unknown_cfg", [], "%s=3\n" % nm, True))
    for nm, val in MALFORMED:
        cases.append(("malformed_cli", ["--" + nm, val], None, True))
        if val:
            cases.append(("malformed_cfg", [], "%s=%s\n" % (nm, val), True))
    # the same mistakes on a last line that has no final newline
    cases.append(("unknown_cfg", [], "GridSize=32\nNoSuchOption=1", True))
    cases.append(("malformed_cfg", [], "GridSize=32\nalpha0=abc", True))
    cases.append(("malformed_cfg", [], "StepsPerTs=-x", True))
    cases.append(("missing_cfg", ["--config", "does_not_exist.cfg"], None, False))
    cases.append(("missing_cfg", ["--config", "dir/also/missing.cfg"], None, False))
    cases.append(("garbage_cfg", [], "\x00\x01\x02 not a config [[[\n=\n", True))
    cases.append(("section_cfg", [], "[section\nGridSize=32\n", True))

    def one(ic):
        i, (kind, extra, cfgtext, must_fail) = ic
        d = os.path.join(wd, "p%03d" % i)
        os.makedirs(d, exist_ok=True)
        argv_extra = list(extra)
        cfg = "/dev/null"
        if cfgtext is not None:
            with open(os.path.join(d, "in.cfg"), "w") as fh:
                fh.write(cfgtext)
            cfg = "in.cfg"
        if kind == "missing_cfg":
            res = prog.run_inovesa("rel", dict(GridSize=32, rotations=0.05, StepsPerTs=40, output="o.h5"), d, xdg, timeout=120, config=extra[1])
        else:
            base = dict(GridSize=32, rotations=0.05, StepsPerTs=40, output="o.h5")
            if cfgtext is not None:
                base.pop(cfgtext.split("=")[0].strip(), None)     # an option given on the command line is never read from the file
            res = prog.run_inovesa("rel", base, d, xdg, timeout=120, extra_args=argv_extra, config=cfg)
        return kind, extra, cfgtext, must_fail, res, os.path.exists(os.path.join(d, "o.h5"))

    for kind, extra, cfgtext, must_fail, res, created in core.pmap(one, list(enumerate(cases))):
        ctx.case("proc:%s:%s:%s" % (kind, extra, cfgtext))
        ctx.ev("process_runs")
        w = dict(kind=kind, args=extra, config=cfgtext, rc=res["rc"], stdout=res["out"][-300:], stderr=res["err"][-300:], cmd=" ".join(res["argv"]))
        bad = prog.program_outcome_key(res)
        if bad:
            ctx.violation("C20:process:%s:%s" % (kind, bad[0].split(":")[0]), "invalid input does not stop the program cleanly: " + bad[1], w)
            continue
        said = len((res["out"] + res["err"]).strip()) > 0
        started = "Starting the simulation" in res["out"]
        if started or created:
            ctx.violation("C20:process:%s:simulated" % kind, "invalid input did not stop the program before anything is simulated", w)
        elif not said:
            ctx.violation("C20:process:%s:silent" % kind, "invalid input stops the program without a message", w)
        elif must_fail and res["rc"] == 0:
            ctx.violation("C20:process:%s:success_status" % kind, "unknown option / malformed value ends with a success status", w)


def run(ctx):
    ctx.assumptions = ASSUME
    ctx.rule = ("API: every option independently placed on the command line / in the config file / in both (different values) / nowhere, with random legal values (incl. values needing 9/17 digits, 1-5 bunch currents), "
                "legacy aliases in the config file, compatibility-only options; distinct by hash of (argv, config text). Process: unknown options, malformed values per type, missing/garbage config files")
    th = ctx.tier == "thorough"
    core.run_harness(ctx, "c20", 200000 if th else 4000, args=["--mode", "c20"])
    core.run_harness(ctx, "c20", 4000 if th else 320, variant="asan", args=["--mode", "c20"])
    process_part(ctx)
    ctx.min_events = {"parses": 2000, "option_values_checked": 100000, "cli_vs_config_conflicts_checked": 3000, "alias_uses_checked": 500, "process_runs": 30}
