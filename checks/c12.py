"""C12 - observing the simulation does not change it; equal inputs give equal outputs."""
import os
import shutil

from vlib import core, prog, physics, h5oracle

ASSUME = [
    "two groups in 16 are 'scale' groups: a grid of 513-1030 cells (a handful of steps), and 70000 steps of a deterministically modulated RF map with 10000 to more than 70000 steps between two outputs (/RFKicks is part of the comparison)",
    "all runs of a group share one FFT wisdom directory that was warmed up by a discarded run (same wisdom => same plans); nothing is claimed across different wisdom files",
    "/Particles is compared only between runs with the same tracking file and a deterministic tracking model (FPTrack 0-2): the stochastic model seeds itself from random_device",
    "RF noise off (the property excludes noise); deterministic phase modulation is used in a fifth of the groups, incl. /RFKicks in the comparison",
    "every run but the reference gets another glibc allocator fill byte (MALLOC_PERTURB_), so that a result that depends on uninitialised heap memory differs between 'identical' runs instead of happening to agree on fresh zero pages",
    "records are matched by step number (time * steps per period, rounded); all runs of a group must end at the same step",
    "one group in eight is a diverging configuration (Fokker-Planck step beyond the explicit scheme's stable range: NaN/inf after a few dozen steps); NaN records are compared bit for bit like any others",
]


def gen_group(seed, g, tier):
    r = core.Rng("c12", seed, g)
    o = dict(GridSize=r.choice([32, 48, 64, 65, 96]), StepsPerTs=r.choice([50, 100, 200]),
             rotations=r.choice([0.25, 0.5, 0.375]))
    imp = ["none", "csr", "wall", "csr"][g % 4]          # stratified: every impedance x renormalisation combination appears
    if imp == "none":
        o["VacuumGap"] = 0
    elif imp == "wall":
        o["WallConductivity"] = 3e7
    o["BunchCurrent"] = [round(r.loguniform(1e-4, 2e-3), 7)]
    if r.chance(0.3):
        o["BunchCurrent"] = [o["BunchCurrent"][0] / 2, o["BunchCurrent"][0] / 3]
        o["HarmonicNumber"] = r.choice([300, 400, 600])
    o["RenormalizeCharge"] = [-1, 0, 4, 3][(g // 4) % 4]
    if g % 5 == 0:
        # deterministic RF phase modulation (no noise), both RF models
        o["LinearRF"] = (g % 10 == 0)
        o["RFPhaseModAmplitude"] = r.choice([0.2, 1.0])
        o["RFPhaseModFrequency"] = float(r.choice([4000, 9000, 20000]))
    if r.chance(0.3):
        o["PhaseSpaceShiftX"] = round(r.uniform(-3, 3), 2)
    if r.chance(0.3):
        o["InterpolationPoints"] = r.choice([2, 3])
    if r.chance(0.3):
        o["DampingTime"] = r.choice([0.0, 2e-3])
    unstable = (g % 8 == 5)
    if unstable:
        # a configuration that diverges (explicit Fokker-Planck step beyond its stable range, NaN/inf within a few dozen steps): how far
        # such a run gets, and what it leaves behind, is as independent of the observation as for any healthy run
        P0 = physics.derive(o)
        o["DampingTime"] = float("%.4g" % (2.0 / (P0["fs"] * P0["steps"] * r.uniform(0.7, 1.5) * P0["delta"] ** 2)))
        o["_unstable"] = True
    last = prog.laststep(o["StepsPerTs"], o["rotations"])
    variants = [dict(outstep=1, SavePhaseSpace=1)]          # reference: every step, every phase space
    variants.append(dict(outstep=1, SavePhaseSpace=1))     # identical repetition
    variants.append(dict(outstep=r.choice([5, 7]), SavePhaseSpace=r.choice([0, 2])))     # a cadence that does not line up with the renormalisation period
    variants.append(dict(outstep=0, SavePhaseSpace=0))     # never
    for k in range(6 if tier == "thorough" else 4):
        v = dict(outstep=r.choice([2, 5, 13, 0, last + 3, 7, 1]), SavePhaseSpace=r.choice([0, 1, 2, 3]))
        if r.chance(0.4):
            v["verbose"] = True
        if r.chance(0.5) and not unstable:
            v["_tracking"] = r.choice([5, 500])
            v["FPTrack"] = r.choice([0, 1, 2, 3])
        if r.chance(0.3):
            v["_outname"] = r.choice(["sub/dir/result.h5", "x.hdf5", "a b.h5"])
        variants.append(v)
    if g % 16 == 11:
        # scale: a grid beyond 512 cells, a handful of steps (strip-mined / blocked loops over rows and columns)
        for k in ("PhaseSpaceShiftX", "DampingTime"):
            o.pop(k, None)
        o.update(GridSize=r.choice([513, 1024, 1030]), StepsPerTs=1000, rotations=0.006, BunchCurrent=[o["BunchCurrent"][0]], _scale="grid")
        o.pop("HarmonicNumber", None)
        variants = [dict(outstep=1, SavePhaseSpace=1), dict(outstep=1, SavePhaseSpace=1), dict(outstep=2, SavePhaseSpace=2), dict(outstep=0, SavePhaseSpace=0),
                    dict(outstep=3, SavePhaseSpace=1), dict(outstep=5, SavePhaseSpace=0, _tracking=500, FPTrack=1)]
    if g % 16 == 3:
        # scale: tens of thousands of steps between two outputs, with a dynamic (deterministically modulated) RF map that keeps a per-step history
        o = dict(GridSize=32, StepsPerTs=r.choice([35000, 17500]), rotations=2.0, VacuumGap=0, BunchCurrent=[1e-3], RenormalizeCharge=r.choice([-1, 0, 30000]),
                 LinearRF=r.chance(0.5), RFPhaseModAmplitude=r.choice([0.5, 2.0]), RFPhaseModFrequency=16000.0, _scale="steps")
        if o["StepsPerTs"] == 17500:
            o["rotations"] = 4.0
        variants = [dict(outstep=20000, SavePhaseSpace=0), dict(outstep=20000, SavePhaseSpace=0), dict(outstep=0, SavePhaseSpace=0), dict(outstep=70001, SavePhaseSpace=1),
                    dict(outstep=34999, SavePhaseSpace=2), dict(outstep=10000, SavePhaseSpace=0, verbose=True)]
    return o, variants


def run_group(args):
    ctx, g, sdir = args
    base, variants = gen_group(ctx.seed, g, ctx.tier)
    gd = os.path.join(sdir, "g%04d" % g)
    xdg = os.path.join(gd, "xdg")
    os.makedirs(xdg, exist_ok=True)
    unstable = bool(base.pop("_unstable", False))
    scale = base.pop("_scale", None)
    P = physics.derive(base)
    if P["nbuckets"] > 1 and (P["spacing_bins"] < P["n"] or P["wake_N"] > 70000):
        return dict(g=g, skip=True)
    out = dict(g=g, base=base, viol=[], compared=0, runs=0, incon=[])
    # warm-up (discarded): creates the wisdom all runs of the group then only read
    w = dict(base); w.update(outstep=0, rotations=0.01, output="warm.h5")
    os.makedirs(os.path.join(gd, "warm"), exist_ok=True)
    prog.run_inovesa("rel", w, os.path.join(gd, "warm"), xdg, timeout=900)
    r = core.Rng("c12trk", ctx.seed, g)
    files = []
    for vi, v in enumerate(variants):
        wd = os.path.join(gd, "v%d" % vi)
        os.makedirs(wd, exist_ok=True)
        o = dict(base)
        o.update({k: val for k, val in v.items() if not k.startswith("_")})
        oname = v.get("_outname", "out.h5")
        if "/" in oname:
            os.makedirs(os.path.join(wd, os.path.dirname(oname)), exist_ok=True)
        o["output"] = oname
        if v.get("_tracking"):
            with open(os.path.join(wd, "trk.txt"), "w") as fh:
                rr = core.Rng("c12trkfile", ctx.seed, g, v["_tracking"])
                for k in range(v["_tracking"]):
                    fh.write("%.4f %.4f\n" % (rr.uniform(-4, 4), rr.uniform(-4, 4)))
            o["tracking"] = "trk.txt"
        # "equal inputs give equal outputs" must not hinge on what freshly allocated memory happens to contain: every run of the group gets a
        # different allocator fill byte (glibc MALLOC_PERTURB_: malloc'd and freed memory is filled with it) - not a parameter of the program
        env = {"MALLOC_PERTURB_": str(1 + (37 * vi + 11 * g) % 254)} if vi > 0 else None
        # ... and every second run after the first a process environment that differs in things that are no parameter of the simulation (prog.envmix)
        if vi > 0:
            em, emlab = prog.envmix(core.Rng("c12env", ctx.seed, g, vi), 0.5)
            if em:
                env = dict(env, **em); out["envs"] = out.get("envs", 0) + 1
        # ... and where the log goes is no input either: one run in four after the first writes it to /dev/full (every write fails) or to a file
        so = None
        if vi > 0 and (vi + g) % 4 == 1:
            so = "/dev/full" if (vi + g) % 8 == 1 else os.path.join(wd, "stdout.txt")
            out["logs_elsewhere"] = out.get("logs_elsewhere", 0) + 1
        res = prog.run_inovesa("rel", o, wd, xdg, timeout=900, env=env, stdout_to=so)
        bad = prog.program_outcome_key(res)
        if bad or res["rc"] != 0 or not os.path.exists(os.path.join(wd, oname)):
            out["incon"].append("group %d variant %d did not produce a file: %s %s" % (g, vi, bad, res["err"][-200:]))
            files.append(None)
            continue
        try:
            files.append((prog.H5(os.path.join(wd, oname)), v, " ".join(res["argv"])))
        except IOError as ex:
            out["viol"].append(("C12:unreadable", "results file cannot be read back", dict(variant=v, error=str(ex))))
            files.append(None)
        out["runs"] += 1
    ref = files[0]
    out["unstable"] = unstable
    out["scale"] = scale
    if ref is not None:
        # every run of the group simulates the same number of steps: its last record carries the same time stamp
        def last_step(h):
            t = h["/Info/AxisValues_t"].astype("float64")
            return int(round(float(t[-1]) * P["steps"])) if len(t) else -1
        want_last = last_step(ref[0])
        for vi in range(1, len(files)):
            if files[vi] is not None and last_step(files[vi][0]) != want_last:
                out["viol"].append(("C12:steps_simulated", "runs that differ only in how they are observed end at different steps",
                                    dict(base=base, variant=files[vi][1], last_step=last_step(files[vi][0]), reference_last_step=want_last, cmd=files[vi][2], reference_cmd=ref[2])))
        out["final_steps_compared"] = sum(1 for f in files[1:] if f is not None)
    if ref is None:
        out["incon"].append("group %d: reference run failed" % g)
    else:
        for vi in range(1, len(files)):
            if files[vi] is None:
                continue
            h, v, cmd = files[vi]
            same_trk = False
            n, bad = h5oracle.compare_common_records(ref[0], h, P["steps"], particles=same_trk)
            out["compared"] += n
            for b in bad:
                kind = "repeat" if vi == 1 else "observation"
                if (b["dataset"] == "/PhaseSpace/data" and b["step"] == 0 and base.get("RenormalizeCharge", 0) > 0
                        and (v.get("SavePhaseSpace", 0) == 0) != (ref[1].get("SavePhaseSpace", 0) == 0)):
                    # the initial-condition record of SavePhaseSpace=0 is written before the loop, i.e. before
                    # the renormalisation of step 0; check that this is the only difference, then use its own key
                    pa = h5oracle.step_index(ref[0], P["steps"], "/PhaseSpace/axis0")
                    pb = h5oracle.step_index(h, P["steps"], "/PhaseSpace/axis0")
                    A = ref[0]["/PhaseSpace/data"][pa[0]].astype("float64")
                    B = h["/PhaseSpace/data"][pb[0]].astype("float64")
                    later_ok = all(h5oracle.bits_equal(ref[0]["/PhaseSpace/data"][pa[st]], h["/PhaseSpace/data"][pb[st]])
                                   for st in set(pa) & set(pb) if st != 0)
                    nz = (A != 0) & (B != 0)
                    ratio = A[nz] / B[nz]
                    if later_ok and ratio.size and float(ratio.max() - ratio.min()) < 1e-6:
                        out["viol"].append(("C12:initial_record_before_step0_renormalisation",
                                            "t=0 phase space saved before (SavePhaseSpace=0) vs after (SavePhaseSpace>0) the renormalisation of step 0",
                                            dict(base=base, variant=v, factor=float(ratio.mean()), cmd=cmd, reference_cmd=ref[2])))
                        continue
                out["viol"].append(("C12:%s:%s" % (kind, b["dataset"]),
                                    "record differs between two runs that differ only in how they are observed" if vi > 1 else "two identical runs give different physics datasets",
                                    dict(base=base, variant=v, step=b["step"], dataset=b["dataset"], cmd=cmd, reference_cmd=ref[2])))
        # the per-step record of what the RF map applied (one row per simulated step, whatever the cadence)
        if base.get("RFPhaseModAmplitude") and "/RFKicks/data" in ref[0]:
            K0 = ref[0]["/RFKicks/data"]
            for vi in range(1, len(files)):
                if files[vi] is None or "/RFKicks/data" not in files[vi][0]:
                    continue
                h, v, cmd = files[vi]
                K = h["/RFKicks/data"]
                out["compared"] += 1
                out["rfkick_arrays"] = out.get("rfkick_arrays", 0) + 1
                if K.shape != K0.shape or not h5oracle.bits_equal(K0[...], K[...]):
                    out["viol"].append(("C12:%s:/RFKicks/data" % ("repeat" if vi == 1 else "observation"),
                                        "the per-step record of the applied RF modulation differs between runs that differ only in how they are observed",
                                        dict(base=base, variant=v, shape=list(K.shape), reference_shape=list(K0.shape), cmd=cmd, reference_cmd=ref[2])))
        # particles: between runs with identical deterministic tracking set-up
        seen = {}
        for vi in range(len(files)):
            if files[vi] is None:
                continue
            h, v, cmd = files[vi]
            if v.get("_tracking") and v.get("FPTrack", 3) != 3:
                key = (v["_tracking"], v.get("FPTrack"))
                if key in seen:
                    n, bad = h5oracle.compare_common_records(seen[key][0], h, P["steps"], datasets=[], particles=True, phasespace=False)
                    out["compared"] += n
                    for b in bad:
                        out["viol"].append(("C12:particles", "tracked particles differ between runs that differ only in output cadence", dict(variant=v, step=b["step"], dataset=b["dataset"], cmd=cmd)))
                else:
                    seen[key] = (h, v)
    out["sig"] = repr(sorted(base.items())) + repr([sorted(v.items()) for v in variants])
    if not os.environ.get("VERIF_KEEP"):
        shutil.rmtree(gd, ignore_errors=True)
    return out


def run(ctx):
    ctx.assumptions = ASSUME
    ctx.rule = ("group = base configuration (grid, steps, impedance none/CSR/wall, 1-2 bunches, renormalisation -1/0/n, shift, interpolation, damping) x 6-8 runs differing only in outstep {1,2,5,7,13,0,>last}, "
                "SavePhaseSpace {0..3}, tracking file (5/500 particles) x FPTrack 0-3, verbose, output name/directory, plus one identical repetition; distinct by (base, variants)")
    n = 200 if ctx.tier == "thorough" else 16
    sdir = ctx.scratch()
    for res in core.pmap(run_group, [(ctx, g, sdir) for g in range(n)]):
        if res.get("skip"):
            continue
        ctx.case(res["sig"])
        ctx.ev("runs", res["runs"])
        ctx.ev("runs_in_a_changed_environment", res.get("envs", 0))
        ctx.ev("runs_with_log_to_dev_full_or_file", res.get("logs_elsewhere", 0))
        ctx.ev("records_compared_bitwise", res["compared"])
        ctx.ev("final_steps_compared", res.get("final_steps_compared", 0))
        if res.get("unstable"):
            ctx.ev("groups_of_diverging_runs")
        if res.get("scale"):
            ctx.ev("groups_at_scale." + res["scale"])
        ctx.ev("rf_kick_records_compared_whole", res.get("rfkick_arrays", 0))
        for key, what, w in res["viol"]:
            ctx.violation(key, what, w)
        for i in res["incon"]:
            ctx.inconcl(i)
        ctx.sample(dict(base=res["base"], runs=res["runs"], records_compared=res["compared"]))
    ctx.min_events = {"runs": 4 * n, "records_compared_bitwise": 100 * n, "final_steps_compared": 3 * n, "groups_of_diverging_runs": 1, "groups_at_scale.grid": 1, "groups_at_scale.steps": 1, "rf_kick_records_compared_whole": 5}
