"""C17 - no configuration or input file makes the program touch memory it does not own."""
import math
import os
import re
import shutil

import numpy as np

from vlib import build, core, prog, physics

ASSUME = [
    "oracle: zero reports from clang AddressSanitizer + UndefinedBehaviorSanitizer (-fno-sanitize-recover=all; float-cast-overflow, signed overflow, bounds, null, alignment, vptr on; unsigned-integer-overflow and float-divide-by-zero off: the code relies on unsigned wrap-around by design and IEEE division by zero is defined), zero valgrind memcheck errors on the sampled subset (uninitialised values, invalid accesses; leaks ignored; reports with no repository frame are library noise), and the process ends by itself with status 0/1 (signal death or watchdog hang is a violation)",
    "syscall-level error injection (ENOSPC/EIO) is not part of the verdict: an uncaught H5::Exception is neither undefined behaviour nor within the property's quantifier",
    "violation keys name the sanitizer kind and the first repository function in the report, so each call site is its own finding",
    "grid sizes from 4 (the smallest grid the 4-point interpolation and derivative stencils fit into)",
    "scale class: a few fixed shapes far beyond everyday sizes - transform length 131072 (2^20 in the thorough tier), a tracking file of 1.1 million particles with the main stack limited to 8 MiB, grids of 513-1030 (2100) cells, 70 (260-300) buckets, 70000 steps without output; 'finished' is required for each, so a silent refusal cannot pass for coverage",
    "the API harnesses of C01-C09, C15, C16, C18-C20 run under the same sanitizer build inside their own checks",
]

NAN_TOKENS = ["nan", "inf", "-inf", "1e999", "0x1p3", "1,5", "--", "1e", ".", "+"]


def imp_file(r, path, N, kind):
    with open(path, "wb") as fh:
        if kind == "exact":
            n = N
        elif kind == "short":
            n = r.choice([1, 2, 3, N // 2, N - 1, max(1, N // 3)])
        elif kind == "long":
            n = N + r.choice([1, 7, N])
        elif kind == "empty":
            return
        elif kind == "zeros":
            # a table of the right length that holds nothing but zeros: the wake potential is exactly zero from the first step on
            for k in range(N):
                fh.write(b"%d 0 0\n" % k)
            return
        elif kind == "onecol":
            for k in range(N):
                fh.write(b"%d\n" % k)
            return
        elif kind == "text":
            fh.write(b"# impedance\nfrequency real imag\nabc def ghi\n" * 5)
            return
        elif kind == "nan":
            for k in range(N):
                fh.write(("%d %s %s\n" % (k, r.choice(NAN_TOKENS), r.choice(NAN_TOKENS + ["1.0"]))).encode())
            return
        elif kind == "hugeline":
            for k in range(N):
                fh.write(b"%d %g %g\n" % (k * 10 ** 15 if k % 3 == 0 else k, r.uniform(0, 10), r.uniform(-10, 10)))
            return
        elif kind == "huge":
            # readable numbers at the edge of single precision: the wake potential overflows to inf/NaN
            for k in range(N):
                fh.write(b"%d %s %s\n" % (k, r.choice([b"1e38", b"3e38", b"-1e38", b"1e30"]), r.choice([b"1e38", b"-3e38", b"1e25"])))
            return
        elif kind == "dupline":
            for k in range(N):
                fh.write(b"%d 1.0 2.0\n" % (k // 2))
            return
        elif kind == "binary":
            fh.write(bytes(r.randint(0, 255) for _ in range(r.choice([10, 1000, 20000]))))
            return
        elif kind == "newlines":
            fh.write(b"\n" * 50)
            return
        for k in range(n):
            fh.write(b"%d %g %g\n" % (k, r.uniform(0, 10), r.uniform(-10, 10)))


def gen(seed, i, tier, force=None):
    r = core.Rng("c17", seed, i)
    cls = ["grid", "buckets", "rf", "kicks", "impfile", "tracking", "startdist", "grid", "buckets", "impfile", "startdist", "mixed"][i % 12]
    if force:
        cls = force.split(":")[0]
    o = dict(GridSize=r.choice([16, 24, 32, 33, 48, 64]), StepsPerTs=r.choice([20, 40, 100]), rotations=r.choice([0.1, 0.25, 0.5]),
             outstep=r.choice([1, 3, 10]), SavePhaseSpace=r.choice([0, 1, 2]), output="o.h5")
    files = {}
    if cls == "scale":
        # sizes far beyond the everyday ones: fixed-size name buffers, stack arrays sized by the input, narrow index types, blocked loops
        kind = force.split(":")[1]
        o = dict(GridSize=64, StepsPerTs=1000, rotations=0.003, outstep=1, SavePhaseSpace=1, output="o.h5")
        o["_scalekind"] = kind
        if kind.startswith("fft"):
            # transform length with six / seven decimal digits (2*grid*padding, rounded up to a power of two)
            big = kind == "fft1048576"
            o.update(GridSize=256 if not big else 1024, padding=r.choice([300, 391, 512]) if not big else 512, SavePhaseSpace=0, rotations=0.002)
            if r.chance(0.5):
                o["VacuumGap"] = 0
        elif kind.startswith("trk"):
            o["_trkkind"] = "million"
            o["tracking"] = "trk.txt"
            o["FPTrack"] = r.randint(0, 2)
            o["VacuumGap"] = 0
        elif kind.startswith("grid"):
            o.update(GridSize=r.choice([513, 1030, 1024]) if kind == "grid1030" else r.choice([2050, 2100]), rotations=0.002)
            o["PhaseSpaceShiftX"] = round(r.uniform(-20, 20), 1)
            o["InterpolationPoints"] = r.randint(2, 4)
        elif kind.startswith("buckets"):
            nbk = 70 if kind == "buckets70" else r.choice([260, 300])
            o.update(GridSize=32 if nbk > 100 else 48, HarmonicNumber=2000 if nbk > 100 else 1000, rotations=0.004,
                     BunchCurrent=[round(r.loguniform(2e-5, 1e-4), 8) if (k % 9 != 4) else 0.0 for k in range(nbk)])
        elif kind == "steps70000":
            o.update(GridSize=32, StepsPerTs=35000, rotations=2.0, outstep=0, SavePhaseSpace=0, VacuumGap=0,
                     RFPhaseModAmplitude=1.0, RFPhaseModFrequency=16000.0)
        return cls, o
    if cls in ("grid", "mixed"):
        o["GridSize"] = r.choice([4, 5, 6, 7, 8, 9, 11, 16, 17, 31, 32, 63, 64, 100, 127, 128, 200, 255, 300] if r.chance(0.7) else list(range(4, 80)))
        o["InterpolationPoints"] = r.randint(1, 4)
        o["derivation"] = r.choice([3, 4])
        o["FPType"] = r.randint(0, 3)
        n = o["GridSize"]
        o["PhaseSpaceShiftX"] = round(r.uniform(-n / 3, n / 3), 2)
        o["PhaseSpaceShiftY"] = round(r.uniform(-n / 3, n / 3), 2)
        o["padding"] = round(r.choice([1, 1.0, 1.3, 2, 2.5, 3.7, 8, 9, 0.5]), 2)
        o["RoundPadding"] = r.chance(0.5)
        o["InitialDistZoom"] = round(r.loguniform(0.1, 5), 3)
        o["InterpolateClamped"] = r.chance(0.2)
        o["RenormalizeCharge"] = r.choice([-1, 0, 1, 3])
        if n >= 200:
            o["rotations"] = 0.05
    if cls in ("buckets", "mixed"):
        nbk = r.randint(2, 5)
        cur = [round(r.loguniform(1e-4, 2e-3), 7) if r.chance(0.7) else 0.0 for _ in range(nbk)]
        if not any(cur):
            cur[0] = 1e-3
        o["BunchCurrent"] = cur
        # spacing: phase spaces per bucket distance from "nearly touching" upward, every fractional part
        n = o["GridSize"]
        base = physics.derive(dict(o))
        want_sp = r.choice([1.0, 1.0 + 0.5 / n, 1.0 + 1.4 / n, 1.02, 1.1, 1.26, 1.5, 2.0, 2.37, 3.0]) if r.chance(0.8) else r.uniform(1.0, 4.0)
        roundup = (force == "buckets:roundup") or (cls == "buckets" and r.chance(0.3))
        if roundup:
            # spacing whose rounding to whole cells goes up, last bucket occupied, no power-of-two slack: the train must still fit
            # grids touching, five or six buckets, spacing rounds up: (nb-1)*round(x)+n > ceil(nb*x) (buckets closer than one
            # grid length are outside the property's domain and are skipped below)
            nbk = r.randint(5, 6)
            cur = [round(r.loguniform(1e-4, 2e-3), 7) if (k in (0, nbk - 1) or r.chance(0.7)) else 0.0 for k in range(nbk)]
            o["BunchCurrent"] = cur
            want_sp = 1 + r.uniform(0.505, 0.58) / n
            o["_bucketkind"] = "roundup"
        # spacing_ps = c/(frev*H*bl*pq): choose H
        H = physics.C / (base["frev"] * want_sp * base["bl"] * base["pq"])
        # bl itself depends on H (through f_s); iterate
        for _ in range(12):
            P = physics.derive(dict(o, HarmonicNumber=H))
            H = H * (P_sp(P) / want_sp) ** 2       # (bunch length ~ H^-1/2, so spacing_ps ~ H^-1/2)
        o["HarmonicNumber"] = round(H, 3)
        o["RoundPadding"] = r.chance(0.5) and not roundup
        o["padding"] = r.choice([1.0, 2.0, 8.0])
    if cls in ("rf", "mixed"):
        o["LinearRF"] = r.chance(0.5)
        if r.chance(0.7):
            o["RFPhaseSpread"] = r.choice([0, 0.01, 1.0])
            o["RFAmplitudeSpread"] = r.choice([0, 1e-4, 1e-2])
            o["RFPhaseModAmplitude"] = r.choice([0, 0.1, 5.0])
            o["RFPhaseModFrequency"] = r.choice([0, 8000.0, 1e5])
        o["StepsPerRevolution"] = r.choice([0, 0, 0.01, 0.05])
        if force == "rf:modulation":
            o.update(RFPhaseSpread=0, RFAmplitudeSpread=0, RFPhaseModAmplitude=r.choice([0.1, 5.0]), RFPhaseModFrequency=r.choice([8000.0, 1e5]), StepsPerRevolution=0)
        if force == "rf:noise":
            o.update(RFPhaseSpread=0.01, RFAmplitudeSpread=1e-4, StepsPerRevolution=0)
    if cls == "kicks":
        o["StepsPerTs"] = r.choice([1, 2, 3, 4, 5, 8, 13])
        o["rotations"] = r.choice([1.0, 2.0])
        o["BunchCurrent"] = [r.choice([1e-3, 1e-2, 0.1])]
        o["LinearRF"] = r.chance(0.7)
        if r.chance(0.3):
            o["VacuumGap"] = 0
        if r.chance(0.3):
            o["alpha1"] = r.choice([0.1, -1.0])
    if cls in ("impfile",):
        kinds = ["exact", "short", "huge", "long", "empty", "missing", "onecol", "text", "nan", "hugeline", "dupline", "binary", "newlines", "short", "huge", "zeros"]
        kind = kinds[(i // 12 * 2 + (1 if i % 12 == 9 else 0)) % len(kinds)]       # every kind in every run (stratified, not sampled)
        if force and ":" in force:
            kind = force.split(":")[1]
        o["_impkind"] = kind
        if r.chance(0.5) or (force and kind in ("empty", "zeros")):
            o["VacuumGap"] = 0          # (forced for the memcheck subset's empty / all-zero tables: the file is then the only impedance)
        o["Impedance"] = "imp.dat"
        if (i // 12) % 2 == 1:
            # ... together with tracked particles (what the file does to the wake reaches them through the kick map)
            o["_trkkind"] = "edges"
            o["tracking"] = "trk.txt"
            o["FPTrack"] = r.randint(0, 3)
    if cls in ("tracking", "mixed"):
        kinds = ["edges", "outside", "empty", "malformed", "many", "missing"]
        kind = kinds[(i // 12) % len(kinds)] if cls == "tracking" else r.choice(kinds)
        o["_trkkind"] = kind
        o["tracking"] = "trk.txt"
        o["FPTrack"] = r.randint(0, 3)
        if r.chance(0.5):
            o["DampingTime"] = r.choice([1e-4, 1e-3])
        o["rotations"] = 1.0
    if cls == "startdist":
        kinds = ["txt_ok", "txt_empty", "txt_malformed", "txt_outside", "txt_cell_edges", "h5_same", "h5_smaller", "h5_larger", "h5_rank2", "h5_rank5", "h5_zero_records",
                 "h5_two_bunch", "h5_garbage", "h5_nonsquare", "unknown_ext", "missing_txt", "h5_three_bunch"]
        idx = i // 12 * 2 + (1 if i % 12 == 10 else 0)
        kind = kinds[idx % len(kinds)]              # every kind in every run, with one bunch current and (every third round) with several
        if force and ":" in force:
            kind = force.split(":")[1]
        o["_startkind"] = kind
        o["InitialDistStep"] = r.choice([-1, 0, 1, -2, 5])
        if (idx // len(kinds)) % 3 == 1:
            # several bucket currents together with a start distribution from a file (which always holds one bunch)
            o["BunchCurrent"] = [round(r.loguniform(1e-4, 2e-3), 7) for _ in range(r.randint(2, 4))]
            o["GridSize"] = r.choice([16, 24, 32])
            o["_multi"] = True
    return cls, o


def P_sp(P):
    return (1.0 / (P["frev"] * P["H"])) * physics.C / P["bl"] / P["pq"]


def materialise(cls, o, wd, r, tool):
    """create the input files of the case; returns run options"""
    run = {k: v for k, v in o.items() if not k.startswith("_")}
    P = physics.derive({k: v for k, v in run.items() if k not in ("Impedance", "tracking", "InitialDistFile")})
    n = P["n"]
    if "_impkind" in o:
        if o["_impkind"] != "missing":
            N = P["wake_N"] if P["wake_N"] and P["wake_N"] < 200000 else 1024
            imp_file(r, os.path.join(wd, "imp.dat"), N, o["_impkind"])
    if "_trkkind" in o:
        k = o["_trkkind"]
        lo, hi = P["qc"] - P["pq"] / 2, P["qc"] + P["pq"] / 2
        plo, phi = P["pc"] - P["pq"] / 2, P["pc"] + P["pq"] / 2
        if k != "missing":
            with open(os.path.join(wd, "trk.txt"), "w") as fh:
                if k == "edges":
                    for q in (lo, hi, lo + P["delta"] / 2, hi - P["delta"] / 2, 0.0):
                        for p in (plo, phi, 0.0, phi - P["delta"] / 2):
                            fh.write("%.6f %.6f\n" % (q, p))
                elif k == "outside":
                    for q, p in ((lo - 5, 0), (hi + 5, 0), (0, plo - 100), (0, phi + 1e6), (1e30, -1e30), (float("nan"), 0), (float("inf"), float("-inf"))):
                        fh.write("%r %r\n" % (q, p))
                elif k == "malformed":
                    fh.write("1.0 2.0\n3.0\nabc def\n4.0 5.0\n")
                elif k == "million":
                    rs = np.random.RandomState(r.randint(0, 2 ** 31 - 1))
                    pts = np.column_stack([rs.uniform(lo - 0.2, hi + 0.2, 1100000), rs.uniform(plo - 0.2, phi + 0.2, 1100000)])
                    np.savetxt(fh, pts, fmt="%.4f")
                elif k == "many":
                    for _ in range(3000):
                        fh.write("%.4f %.4f\n" % (r.uniform(lo, hi), r.uniform(plo, phi)))
    if "_startkind" in o:
        k = o["_startkind"]
        fn = None
        if k.startswith("txt") or k == "missing_txt":
            fn = "start.txt"
            if k == "txt_ok":
                with open(os.path.join(wd, fn), "w") as fh:
                    for _ in range(500):
                        fh.write("%.4f %.4f\n" % (r.uniform(-2, 2), r.uniform(-2, 2)))
            elif k == "txt_empty":
                open(os.path.join(wd, fn), "w").close()
            elif k == "txt_malformed":
                with open(os.path.join(wd, fn), "w") as fh:
                    fh.write("1 2\nx y\n3\n\n\n7 8 9\n")
            elif k == "txt_cell_edges":
                # coordinates that fall exactly on, or one ulp next to, the boundaries between cells in single precision - including
                # half a cell outside the first and the last cell, where rounding to a cell index decides between "on the grid" and "off"
                import struct
                def f32(x):
                    return struct.unpack("f", struct.pack("f", x))[0]
                def nxt(x, up):
                    b = struct.unpack("I", struct.pack("f", x))[0]
                    b = b + 1 if (x > 0) == up else b - 1
                    return struct.unpack("f", struct.pack("I", b))[0]
                qmax = P["pq"] / 2
                with open(os.path.join(wd, fn), "w") as fh:
                    for cell in (-1.5, -1.0, -0.5, 0.0, 0.5, 1.0, n / 2.0, n - 1.5, n - 1.0, n - 0.5, n, n + 0.5):
                        q = f32(qmax * (cell / n - 0.5))
                        for v in (q, nxt(q, True) if q else 1e-45, nxt(q, False) if q else -1e-45):
                            fh.write("%.9g %.9g\n" % (v, 0.0))
                            fh.write("%.9g %.9g\n" % (0.0, v))
                            fh.write("%.9g %.9g\n" % (v, v))
            elif k == "txt_outside":
                with open(os.path.join(wd, fn), "w") as fh:
                    for q, p in ((1e9, 0), (-1e9, 1e9), (6, 6), (-6, -6), (5.999, -5.999), (float("nan"), 1), (1e39, -1e39)):
                        fh.write("%r %r\n" % (q, p))
        elif k == "unknown_ext":
            fn = "start.dat"
            open(os.path.join(wd, fn), "w").write("1 2\n")
        else:
            fn = "start.h5"
            path = os.path.join(wd, fn)
            def mk(rank, dims):
                raw = path + ".raw"
                tot = int(np.prod(dims))
                np.abs(np.random.RandomState(r.randint(0, 2 ** 31 - 1)).rand(tot)).astype("<f4").tofile(raw)
                core.run_cmd([tool, "mkps", path, str(rank)] + [str(x) for x in dims] + [raw], timeout=60)
                os.unlink(raw)
            if k == "h5_same":
                mk(4, [2, 1, n, n])
            elif k == "h5_smaller":
                m = max(2, n // 2)
                mk(4, [1, 1, m, m])
            elif k == "h5_larger":
                mk(r.choice([3, 4]), [1, 1, 2 * n, 2 * n] if r.chance(0.5) else [1, 2 * n + 1, 2 * n + 1][:3])
            elif k == "h5_rank2":
                raw = path + ".raw"; np.zeros(n * n, dtype="<f4").tofile(raw)
                core.run_cmd([tool, "mkps", path, "2", str(n), str(n), raw], timeout=60); os.unlink(raw)
            elif k == "h5_rank5":
                raw = path + ".raw"; np.zeros(n * n, dtype="<f4").tofile(raw)
                core.run_cmd([tool, "mkps", path, "5", "1", "1", "1", str(n), str(n), raw], timeout=60); os.unlink(raw)
            elif k == "h5_zero_records":
                raw = path + ".raw"; open(raw, "wb").close()
                core.run_cmd([tool, "mkps", path, "4", "0", "1", str(n), str(n), raw], timeout=60); os.unlink(raw)
            elif k == "h5_two_bunch":
                mk(4, [1, 2, n, n])
            elif k == "h5_three_bunch":
                mk(4, [2, 3, n, n])
            elif k == "h5_nonsquare":
                mk(4, [1, 1, n, max(2, n // 2)])
            elif k == "h5_garbage":
                open(path, "wb").write(bytes(r.randint(0, 255) for _ in range(4096)))
        run["InitialDistFile"] = fn
    return run


REPO_FRAME = re.compile(r"\((/repo/|/var/tmp/verif-cache/|.*inovesa\b)|at 0x[0-9A-F]+: (vfps::|main|fft::)|by 0x[0-9A-F]+: (vfps::|main \(|fft::)")


def classify_memcheck(log):
    """-> list of (key, summary) for memcheck error blocks that have a repository frame"""
    out = []
    blocks = re.split(r"\n==\d+== \n", log)
    for b in blocks:
        m = re.search(r"==\d+== (Invalid (read|write) of size \d+|Conditional jump or move depends on uninitialised value\(s\)|Use of uninitialised value of size \d+|Syscall param .* uninitialised byte\(s\)|Invalid free|Mismatched free|Source and destination overlap.*)", b)
        if not m:
            continue
        kind = re.sub(r"\d+", "N", m.group(1))
        fn = None
        for fm in re.finditer(r"(?:at|by) 0x[0-9A-F]+: (.+?) \((.+?)\)", b):
            f, loc = fm.group(1), fm.group(2)
            if f.startswith("vfps::") or f.startswith("main") or f.startswith("fft::") or "inovesa" in loc or ".cpp:" in loc and "/repo/" in loc:
                fn = re.sub(r"\(.*", "", f)
                break
        if fn is None:
            continue   # library-internal noise (no repository frame)
        out.append(("memcheck:%s:%s" % (kind.split(" depends")[0][:40], fn), "%s in %s" % (kind, fn)))
    return out


def run_case(args):
    ctx, i, sdir, tool, use_memcheck = args[:5]
    force = args[5] if len(args) > 5 else None
    cls, o = gen(ctx.seed, i, ctx.tier, force)
    r = core.Rng("c17files", ctx.seed, i)
    wd = os.path.join(sdir, "c%05d" % i)
    os.makedirs(wd, exist_ok=True)
    out = dict(i=i, cls=cls, opts={k: v for k, v in o.items()}, viol=[])
    try:
        run = materialise(cls, o, wd, r, tool)
    except Exception as ex:      # generator problem: not a verdict
        out["incon"] = "could not materialise case: %r" % (ex,)
        return out
    P = physics.derive({k: v for k, v in run.items() if k not in ("Impedance", "tracking", "InitialDistFile")})
    if P["nbuckets"] > 1 and cls != "scale":
        if P["spacing_bins"] is None or P["spacing_bins"] < P["n"] or (P["wake_N"] or 0) > (40000 if run.get("RoundPadding", True) else 5000):
            out["skip"] = "overlapping buckets or too long transform"
            shutil.rmtree(wd, ignore_errors=True)
            return out
    xdg = os.path.join(wd, "xdg")
    if use_memcheck:
        exe = os.path.join(build.build("memck"), "inovesa")
        log = os.path.join(wd, "vg.log")
        argv = ["valgrind", "--error-exitcode=0", "--log-file=" + log, "--track-origins=no", "--num-callers=20", exe, "--config", "/dev/null"] + prog.to_args(run)
        res = core.run_cmd(argv, cwd=wd, env={"XDG_DATA_HOME": xdg, "HOME": wd}, timeout=1800)
        if res["hang"]:
            res = core.run_cmd(argv, cwd=wd, env={"XDG_DATA_HOME": xdg, "HOME": wd}, timeout=3600)
        res["argv"] = argv
        out["cmd"] = " ".join(argv)
        try:
            txt = open(log, errors="replace").read()
        except OSError:
            txt = ""
        if "ERROR SUMMARY" not in txt:
            out["incon"] = "valgrind did not run to completion: " + txt[-200:].replace("\n", " | ")
            return out
        m = re.search(r"ERROR SUMMARY: (\d+) errors", txt)
        out["memcheck_errors_total"] = int(m.group(1)) if m else -1
        for key, what in classify_memcheck(txt):
            out["viol"].append((key, what, txt[-3000:]))
        if res["hang"]:
            out["viol"].append(("hang:memcheck", "process did not terminate under memcheck", ""))
        out["memcheck"] = 1
    else:
        variant = args[6] if len(args) > 6 else "asan"
        # (the main thread's stack is limited to the customary 8 MiB, whatever this shell's limit happens to be)
        res = prog.run_inovesa(variant, run, wd, xdg, timeout=3600 if cls == "scale" else 900, stack_kib=8192 if cls == "scale" else None)
        out["variant"] = variant
        out["cmd"] = " ".join(res["argv"])
        bad = prog.program_outcome_key(res)
        if bad:
            out["viol"].append((bad[0], bad[1], res["err"][-3000:]))
    out["rc"] = res["rc"]
    out["started"] = "Starting the simulation" in res["out"]
    out["finished"] = "Finished." in res["out"]
    shutil.rmtree(wd, ignore_errors=True)
    return out


def run(ctx):
    ctx.assumptions = ASSUME
    ctx.rule = ("case = one run of the real program in the ASan/UBSan build (a sampled subset again under valgrind memcheck) from one of the generator classes: grid (size 4..300, orders, stencils, FP types, shifts up to n/3, padding 0.5..9, rounding), "
                "buckets (2-6 buckets with empty ones, spacing from nearly touching upward with every fractional part, with/without rounding; a third touching with a spacing that rounds up to the next cell, 5-6 buckets, first and last occupied, no rounding of the padded length), rf (models x noise x modulation), kicks (1..13 steps per period: kicks beyond the grid), "
                "impfile (exact/short/long/empty/missing/one column/text/NaN tokens/values at the edge of single precision/huge line numbers/duplicates/binary; half of them together with tracked particles), tracking (edge, outside, empty, malformed, many, missing), "
                "startdist (.txt ok/empty/malformed/outside/exactly on cell boundaries and half a cell outside the grid in single precision; .h5 same/smaller/larger/rank 2/rank 5/zero records/two and three bunches/non-square/garbage; unknown extension; every kind with one bunch current and, every third round, with 2-4 bucket currents; file kinds are cycled through, not sampled); distinct by option set and file kind")
    th = ctx.tier == "thorough"
    n = 6000 if th else 360
    nmem = 240 if th else 16
    sdir = ctx.scratch()
    tool = build.build_tool("h5tool")
    build.build("asan")
    build.build("memck")
    jobs = [(ctx, i, sdir, tool, False) for i in range(n)]
    # memcheck subset: spread over the classes
    # memcheck subset: uninitialised values are invisible to ASan/UBSan, so the classes that read input or build tables
    # from options are forced into it (one of each per 16), the rest is spread over the generator
    forced = ["rf:modulation", "rf:noise", "impfile:empty", "impfile:zeros", "impfile:short", "startdist:txt_empty", "startdist:txt_ok", "startdist:h5_rank2",
              "startdist:h5_same", "tracking", "kicks", "buckets", "grid", "buckets:roundup"]
    for k in range(nmem):
        f = forced[k % 16] if (k % 16) < len(forced) else None
        jobs.append((ctx, 7 * k + 3, sdir + "/m", tool, True, f))
    os.makedirs(sdir + "/m", exist_ok=True)
    scale = [("fft131072", "asan"), ("trk1100k", "rel"), ("grid1030", "asan"), ("buckets70", "asan")]
    if th:
        scale += [("fft131072", "asan"), ("fft1048576", "asan"), ("trk1100k", "asan"), ("grid2100", "asan"), ("grid1030", "asan"), ("grid1030", "asan"),
                  ("buckets260", "asan"), ("buckets260", "rel"), ("steps70000", "asan")]
    os.makedirs(sdir + "/s", exist_ok=True)
    # the long ones first, so that they overlap with everything else
    jobs = [(ctx, 100000 + k, sdir + "/s", tool, False, "scale:" + kind, variant) for k, (kind, variant) in enumerate(scale)] + jobs
    for res in core.pmap(run_case, jobs):
        if "incon" in res:
            ctx.inconcl("case %d: %s" % (res["i"], res["incon"]))
            continue
        if "skip" in res:
            ctx.ev("generator_skips")
            continue
        tag = "memcheck" if res.get("memcheck") else res.get("variant", "asan")
        if res["cls"] == "scale":
            ctx.ev("scale." + res["opts"]["_scalekind"] + (".finished" if res.get("finished") else ".ran"))
        ctx.case("%s:%s:%s" % (tag, res["cls"], sorted((k, str(v)) for k, v in res["opts"].items())))
        ctx.ev("runs." + tag)
        ctx.ev("class." + res["cls"])
        if res.get("started"):
            ctx.ev("runs_that_simulated")
        if res.get("finished"):
            ctx.ev("runs_that_finished")
        sub = res["opts"].get("_impkind") or res["opts"].get("_startkind") or res["opts"].get("_trkkind") or res["opts"].get("_bucketkind")
        if sub and res["opts"].get("_multi"):
            sub += "+buckets"
            ctx.ev("start_files_with_several_bucket_currents")
        if sub:
            ctx.ev("filekind." + sub)
        if res["opts"].get("_impkind") and res["opts"].get("tracking"):
            ctx.ev("impedance_files_with_tracking")
        for key, what, rep in res["viol"]:
            ctx.violation(key, what + " [class %s%s]" % (res["cls"], "/" + sub if sub else ""), dict(cmd=res["cmd"], options=res["opts"], report=rep))
        if len(ctx.samples) < 8 and res["i"] % 37 == 0:
            ctx.sample(dict(cls=res["cls"], options=res["opts"], exit_status=res["rc"], simulated=res.get("started")))
    from checks import c17_fuzz
    ctx.min_events = {}
    c17_fuzz.run(ctx)
    ctx.min_events.update({"runs.asan": n * 3 // 4, "runs.memcheck": nmem // 2, "runs_that_finished": n // 3,
                      "class.grid": 20, "class.buckets": 10, "class.impfile": 20, "class.startdist": 20, "class.tracking": 10, "class.kicks": 10, "class.rf": 10, "filekind.roundup": 4, "start_files_with_several_bucket_currents": 4, "filekind.h5_two_bunch": 1, "filekind.h5_two_bunch+buckets": 1, "filekind.short": 2, "filekind.edges": 2, "filekind.huge": 2, "impedance_files_with_tracking": 6,
                      "scale.fft131072.finished": 1, "scale.trk1100k.finished": 1, "scale.grid1030.finished": 1, "scale.buckets70.finished": 1})
