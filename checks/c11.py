"""C11 - continuing from a results file equals never having stopped."""
import os
import shutil

import numpy as np

from vlib import core, prog, physics, h5oracle

ASSUME = [
    "two cases in 16 are 'scale' cases: a mesh of 513-1030 cells, and a first leg with 513 stored states continued from record 257-511 (or counted from the end)",
    "split points are whole numbers of steps (dyadic T1, T2 with steps*T exact) and, for RenormalizeCharge=n>0, the start record lies on a multiple of n so that the renormalisation schedules of both runs align; a step-count mismatch of the second leg or of the uninterrupted run is a harness error, never a violation; a first leg whose file does not end with the state it reached is one",
    "'within rounding': bit-exact where no renormalisation intervenes (RenormalizeCharge -1), 1e-5*max otherwise (RenormalizeCharge 0 renormalises once at every start-up, n>0 periodically)",
    "all three runs of a case share one warmed FFT wisdom directory",
    "refusals: the process must end by itself (watchdog = violation), print a message, must not log 'Starting the simulation' and must not create the requested results file",
]


def gen_case(seed, i, tier):
    r = core.Rng("c11", seed, i)
    N = r.choice([40, 64, 100, 128])
    o = dict(GridSize=r.choice([48, 64, 65, 96, 128] if tier == "thorough" else [48, 64, 65, 96]), StepsPerTs=N)
    imp = r.choice(["none", "csr", "csr", "file"])
    if imp == "none":
        o["VacuumGap"] = 0
    elif imp == "file":
        o["VacuumGap"] = 0
        o["_impfile"] = True
    o["BunchCurrent"] = [round(r.loguniform(5e-5, 8e-4), 7)]
    o["RenormalizeCharge"] = [-1, 0, r.choice([4, 5])][i % 3]
    if r.chance(0.3):
        o["PhaseSpaceShiftX"] = round(r.uniform(-2, 2), 2)
        o["PhaseSpaceShiftY"] = round(r.uniform(-2, 2), 2)
    if r.chance(0.3):
        o["InterpolationPoints"] = r.choice([2, 3])
    if r.chance(0.3):
        o["InitialDistZoom"] = r.choice([0.8, 1.3])
    if i % 8 == 6:
        # a grid that cuts a tail of the bunch (small phase space, or shifted by a quarter of its size): whatever the start-up code derives
        # from a built-in distribution on such a grid must not leak into a run that starts from a stored one
        if r.chance(0.5):
            o["PhaseSpaceSize"] = r.choice([6.0, 7.0])
        else:
            o["PhaseSpaceShiftX"] = round(r.choice([-1, 1]) * r.uniform(0.2, 0.27) * o["GridSize"], 1)
            o["PhaseSpaceShiftY"] = round(r.choice([-1, 1]) * r.uniform(0.0, 0.2) * o["GridSize"], 1)
        o["_cut"] = True
    # half of the cases leave the linear optics: second / third order momentum compaction, sinusoidal RF (the parts of the dynamics that
    # depend on the absolute energy and length scales of the phase space, which a continued run takes from the start file's context)
    if i % 4 == 1:
        o["alpha1"] = r.choice([2e-2, -1e-2, 0.3])
    if i % 4 == 2:
        o["LinearRF"] = False
    if i % 8 == 3:
        o["alpha2"] = r.choice([0.1, -0.2])
    prog.sprinkle(core.Rng("c11nuisance", seed, i), o, clamp_ok=True, padding_ok=(imp != "file"))      # the same in all three runs of a case
    T1 = r.choice([0.25, 0.5])
    T2 = r.choice([0.25, 0.5])
    o1 = r.choice([4, 5, 10])
    ren = o["RenormalizeCharge"]
    if ren > 0:
        o1 = ren * r.choice([1, 2])          # stored records on multiples of n
    which = r.choice([-1, -1, 0, 1, 2, -2, -3])
    if i % 16 == 9:
        # scale: a mesh beyond 512 cells (a handful of steps per leg: every stored state is 1-4 MB)
        o["GridSize"] = r.choice([513, 640, 1030])
        # (1024 steps per period, four steps per leg: with a coarse step the wake-driven dynamics amplify any difference tenfold per
        #  step - at 16 steps per period the one-ulp rescaling of a RenormalizeCharge=0 start-up grew to 5e-5 within two steps, seed 3)
        o["StepsPerTs"] = 1024
        T1 = T2 = 1.0 / 256
        o1 = r.choice([1, 2]) if ren <= 0 else o1
        o["_scale"] = "grid"
    if i % 16 == 13:
        # scale: a first leg with hundreds of stored states, continued from one far beyond the 256th
        o["GridSize"] = 48
        o["StepsPerTs"] = 2048
        T1, T2 = 0.25, 1.0 / 64
        o1 = 1
        which = r.choice([300, 511, -2, 257, -200])
        if ren > 0:
            o["RenormalizeCharge"] = 1
        o["_scale"] = "records"
    return o, T1, T2, o1, which


def run_case(args):
    ctx, i, sdir = args
    o, T1, T2, o1, which = gen_case(ctx.seed, i, ctx.tier)
    gd = os.path.join(sdir, "c%04d" % i)
    xdg = os.path.join(gd, "xdg")
    os.makedirs(xdg, exist_ok=True)
    base = {k: v for k, v in o.items() if not k.startswith("_")}
    P = physics.derive(base)
    steps = int(P["steps"])
    out = dict(i=i, viol=[], incon=[], compared=0, sig=repr((sorted(base.items()), T1, T2, o1, which)), base=base)
    if o.get("_impfile"):
        rr = core.Rng("c11imp", ctx.seed, i)
        with open(os.path.join(gd, "imp.dat"), "w") as fh:
            for k in range(P["wake_N"]):
                fh.write("%d %.6g %.6g\n" % (k, rr.uniform(0, 20) if k <= P["wake_N"] // 2 else 0, rr.uniform(-20, 20) if k <= P["wake_N"] // 2 else 0))
        base["Impedance"] = os.path.join(gd, "imp.dat")

    def go(name, extra, T, fname="out.h5"):
        wd = os.path.join(gd, name)
        os.makedirs(wd, exist_ok=True)
        oo = dict(base); oo.update(extra); oo["rotations"] = T; oo["output"] = fname
        res = prog.run_inovesa("rel", oo, wd, xdg, timeout=900)
        bad = prog.program_outcome_key(res)
        if bad or res["rc"] != 0 or not os.path.exists(os.path.join(wd, fname)):
            return None, res
        return prog.H5(os.path.join(wd, fname)), res

    # the results file of the first leg carries either of the two documented endings
    leg1name = "out.hdf5" if i % 3 == 1 else "out.h5"
    out["hdf5_ending"] = leg1name.endswith(".hdf5")
    out["scale"] = o.get("_scale")
    out["cut"] = bool(o.get("_cut"))

    go("warm", dict(outstep=0), 0.01)
    full, rf = go("full", dict(outstep=1, SavePhaseSpace=1), T1 + T2)
    leg1, r1 = go("leg1", dict(outstep=o1, SavePhaseSpace=1), T1, fname=leg1name)
    if full is None or leg1 is None:
        out["incon"].append("case %d: full or first leg did not run: %s" % (i, (rf["err"] + r1["err"])[-200:]))
        return out
    ps1 = np.rint(leg1["/PhaseSpace/axis0"].astype(float) * steps).astype(int)
    nrec = len(ps1)
    k = which if -nrec <= which < nrec else -1
    s_k = int(ps1[k])
    ren = base.get("RenormalizeCharge", 0)
    if ren > 0 and s_k % ren != 0:
        k = 0
        s_k = int(ps1[0])
    leg2, r2 = go("leg2", dict(outstep=1, SavePhaseSpace=1, InitialDistFile=os.path.join(gd, "leg1", leg1name), InitialDistStep=k), T2)
    if leg2 is None:
        out["viol"].append(("C11:continue_failed", "continuing from a valid results file did not run", dict(base=base, stderr=r2["err"][-500:], cmd=" ".join(r2["argv"]))))
        return out
    ps2 = np.rint(leg2["/PhaseSpace/axis0"].astype(float) * steps).astype(int)
    psf = {int(s): j for j, s in enumerate(np.rint(full["/PhaseSpace/axis0"].astype(float) * steps).astype(int))}
    n1, n2, nf = int(ps1[-1]), int(ps2[-1]), max(psf)
    if n1 != round(steps * T1):
        # the first leg's file does not end with the state the first leg reached: "the last stored record" is then an older state
        out["viol"].append(("C11:first_leg_end_state_not_stored", "the results file of the first leg does not end with the state reached at the end of that leg, so continuing from its last record cannot equal the uninterrupted run",
                            dict(base=base, T1=T1, first_leg_last_stored_step=n1, first_leg_steps=int(round(steps * T1)), cmd_leg1=" ".join(r1["argv"]))))
        return out
    if n1 != round(steps * T1) or n2 != round(steps * T2) or nf != round(steps * (T1 + T2)):
        out["incon"].append("case %d: step counts do not add up (%d,%d,%d)" % (i, n1, n2, nf))
        return out
    exact = (ren < 0)
    tol = None if exact else 1e-5
    w = dict(base=base, T1=T1, T2=T2, start_record=k, start_step=s_k, cmd_leg2=" ".join(r2["argv"]), cmd_full=" ".join(rf["argv"]))

    def same(a, b, t, floor=0.0):
        if t is None:
            return h5oracle.bits_equal(a, b), 0.0
        m = max(float(np.max(np.abs(a))), floor) + 1e-300
        e = float(np.max(np.abs(a.astype(float) - b.astype(float)))) / m
        return e <= t, e

    # (1) loads exactly the stored values
    ok, e = same(leg1["/PhaseSpace/data"][k], leg2["/PhaseSpace/data"][0], None if ren < 0 else 1e-5)
    out["compared"] += 1
    out["load_exact"] = ok
    if not ok:
        out["viol"].append(("C11:load:" + ("exact" if ren < 0 else "renorm"), "first record of the continued run differs from the chosen stored record", dict(w, rel_err=e)))
    # (2) every later state equals the uninterrupted run's
    worst = 0.0
    for j, s in enumerate(ps2):
        g = s_k + int(s)
        if g not in psf:
            continue
        ok, e = same(full["/PhaseSpace/data"][psf[g]], leg2["/PhaseSpace/data"][j], tol)
        worst = max(worst, e)
        out["compared"] += 1
        if not ok:
            out["viol"].append(("C11:diverges:" + ("exact" if exact else "rounding"), "continued run differs from the uninterrupted run", dict(w, local_step=int(s), global_step=g, rel_err=e)))
            break
    out["worst"] = worst
    out["exact"] = exact
    # derived records of the final state
    tf = h5oracle.step_index(full, steps)
    t2 = h5oracle.step_index(leg2, steps)
    gfin = s_k + n2
    if gfin in tf:
        for ds in h5oracle.PHYSICS_DATASETS:
            if ds in full and ds in leg2 and full[ds].shape[0] and leg2[ds].shape[0]:
                # (not bit-exact case: the state differs by one rounding of the renormalisation, ~1e-6; wake and CSR datasets add the absolute
                #  rounding noise of their single-precision transforms, which for a weak wake is a few 1e-5 of its maximum - C10 models that floor)
                tol_ds = None if exact else (1e-4 if ds.startswith(("/WakePotential", "/CSR")) else 2e-5)
                ok, e = same(full[ds][tf[gfin]], leg2[ds][t2[n2]], tol_ds, floor=1.0 if ds in ('/BunchPosition/data', '/EnergyAverage/data', '/BunchLength/data', '/EnergySpread/data') else 0.0)
                out["compared"] += 1
                if not ok:
                    out["viol"].append(("C11:final_record:" + ds, "derived dataset of the final record differs from the uninterrupted run", dict(w, dataset=ds, rel_err=e)))
    if not os.environ.get("VERIF_KEEP"):
        shutil.rmtree(gd, ignore_errors=True)
    return out


def refusals(ctx, sdir):
    """unusable start files must be refused with a message"""
    gd = os.path.join(sdir, "refuse")
    xdg = os.path.join(gd, "xdg")
    os.makedirs(xdg, exist_ok=True)
    base = dict(GridSize=32, StepsPerTs=40, rotations=0.1, VacuumGap=0, outstep=0)
    # a valid single-bunch and a two-bunch results file
    prog.run_inovesa("rel", dict(base, output="one.h5", SavePhaseSpace=1), gd, xdg, timeout=600)
    prog.run_inovesa("rel", dict(base, output="two.h5", SavePhaseSpace=1, HarmonicNumber=400, BunchCurrent=[1e-3, 1e-3]), gd, xdg, timeout=600)
    raw = open(os.path.join(gd, "one.h5"), "rb").read() if os.path.exists(os.path.join(gd, "one.h5")) else b""
    cases = {"missing": None, "garbage": os.urandom(5000), "truncated": raw[: max(len(raw) // 3, 10)], "empty": b"",
             "two_bunch": "two.h5", "text": b"this is not hdf5\n" * 20}
    r = core.Rng("c11ref", ctx.seed)
    for name, content in cases.items():
        fn = os.path.join(gd, "start_%s.h5" % name)
        if content is None:
            pass
        elif isinstance(content, str):
            if not os.path.exists(os.path.join(gd, content)):
                ctx.inconcl("refusal %s: could not create the two-bunch file" % name)
                continue
            shutil.copy(os.path.join(gd, content), fn)
        else:
            with open(fn, "wb") as fh:
                fh.write(content)
        for step in (-1, 0):
            wd = os.path.join(gd, "run_%s_%d" % (name, step + 1))
            os.makedirs(wd, exist_ok=True)
            res = prog.run_inovesa("rel", dict(base, output="res.h5", InitialDistFile=fn, InitialDistStep=step), wd, xdg, timeout=120)
            ctx.case("refusal:%s:%d" % (name, step))
            ctx.ev("refusals_tried")
            w = dict(kind=name, cmd=" ".join(res["argv"]), stdout=res["out"][-400:], stderr=res["err"][-400:])
            bad = prog.program_outcome_key(res)
            if bad:
                ctx.violation("C11:refusal:%s:%s" % (name, bad[0].split(":")[0]), "unusable start file is not refused cleanly: " + bad[1], w)
                continue
            started = "Starting the simulation" in res["out"]
            created = os.path.exists(os.path.join(wd, "res.h5"))
            said = len((res["out"] + res["err"]).strip()) > 0 and ("rror" in res["out"] + res["err"])
            if started or created or not said:
                ctx.violation("C11:refusal:%s:not_refused" % name, "unusable start file is not refused with a message before anything is simulated",
                              dict(w, started=started, created_results=created, message=said))


def run(ctx):
    ctx.assumptions = ASSUME
    ctx.rule = ("case = (grid, steps per period, impedance none/weak CSR/file, renormalisation -1/0/n, shifts, interpolation, zoom, T1, T2, first-leg cadence, start record -1/0/k/-k): full run vs leg1+leg2; "
                "plus 12 refusal runs (missing/garbage/truncated/empty/text/two-bunch start file x start record); distinct by parameters")
    n = 300 if ctx.tier == "thorough" else 30
    sdir = ctx.scratch()
    worst_r = 0.0
    for res in core.pmap(run_case, [(ctx, i, sdir) for i in range(n)]):
        ctx.case(res["sig"])
        ctx.ev("states_compared", res["compared"])
        if res.get("hdf5_ending"):
            ctx.ev("continuations_from_a_file_with_hdf5_ending")
        if res.get("scale") and "worst" in res:
            ctx.ev("continuations_at_scale." + res["scale"])
        if "worst" in res and any(k in res["base"] for k in ("alpha1", "alpha2", "LinearRF")):
            ctx.ev("continuations_with_nonlinear_optics")
        if res.get("cut") and "worst" in res:
            ctx.ev("continuations_on_grids_that_cut_a_tail")
        if res.get("exact"):
            ctx.ev("bit_exact_continuations")
        elif "worst" in res:
            ctx.residual("continuation_rel_err(renormalising)", res["worst"], 1e-5)
        for key, what, w in res["viol"]:
            ctx.violation(key, what, w)
        for x in res["incon"]:
            ctx.inconcl(x)
        ctx.sample(dict(base=res["base"], states_compared=res["compared"]))
    refusals(ctx, sdir)
    ctx.min_events = {"states_compared": 20 * n, "refusals_tried": 10, "bit_exact_continuations": n // 4,
                      "continuations_with_nonlinear_optics": n // 4, "continuations_on_grids_that_cut_a_tail": max(1, n // 12), "continuations_at_scale.grid": 1, "continuations_at_scale.records": 1}
