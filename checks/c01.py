"""C01 - every transport step conserves the charge of a distribution inside the grid."""
from vlib import core

ASSUME = [
    "'stays clear of the grid border' = support at least ceil(max|offset|)+3 cells from every border before the step (generator) and no charge on the border cells after it (verified per case)",
    "rounding model: |sum_out - sum_in| <= 4*2^-24*(points+1)*sum|in| (x(1+4*e1/delta^2) for Fokker-Planck)",
    "Fokker-Planck: tolerated defect <= 1.5*e1 times the charge in rows within 3 cells of the zero-energy bin, 4-point stencil with damping only; must scale with e1 (checked with e1 and e1/2) and vanish for the 3-point stencil",
    "program part: runs with outstep 1, SavePhaseSpace 1, RenormalizeCharge -1 and a start distribution of 0.4-0.6 sigma on 96-160 cells (a step is judged when, in the record before it, the |charge| within [largest possible displacement of the step + 12] cells of the border is below 5 % of the per-step tolerance): the plain sum of every bunch's cells may change per recorded step by at most 4*2^-24*(points+1)*sum|f| (four maps) (+ the Fokker-Planck allowance for the 4-point stencil with damping) and over the run by 4*sqrt(steps) times that; classes: DampingTime 0 (no Fokker-Planck map), FPType 0, 3-point stencil, 4-point stencil; with/without wake, one or two bunches",
    "sums are plain double-precision sums over all cells of all bunches, computed by the harness",
]


def run(ctx):
    ctx.assumptions = ASSUME
    ctx.rule = ("case = (map kind of 8, grid 8..128 even/odd, 1-3 bunches, order 1-4, grid shift, displacement field flavour of 6, data flavour of 3); "
                "distinct by hash(kind,n,nb,order,data); cases where nothing fits inside the margin are dropped, not counted; "
                "impulse mode: every interior cell of a small grid as a unit impulse (column sums)")
    th = ctx.tier == "thorough"
    core.run_harness(ctx, "c01", 200000 if th else 3200, args=["--mode", "data"])
    core.run_harness(ctx, "c01", 4000 if th else 96, args=["--mode", "impulse"])
    core.run_harness(ctx, "c01", 8000 if th else 320, variant="asan", args=["--mode", "data"])
    core.run_harness(ctx, "c01", 200 if th else 16, variant="asan", args=["--mode", "impulse"])
    ctx.min_events = {"map_applications": 1000, "impulse_columns": 2000, "fp_columns": 50,
                      "fp_band_rows": 5}
    from checks import c01_prog
    c01_prog.run(ctx)
    if ctx.events.get("generator_edge_contact", 0):
        ctx.inconcl("%d cases touched the border after the step and were not judged" % ctx.events["generator_edge_contact"])
