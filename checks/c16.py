"""C16 - impedance models are well-formed, passive, correctly scaled and causal."""
from vlib import core

ASSUME = [
    "sample counts n >= 2 (a frequency ruler needs two points)",
    "'ahead' = higher grid index (head of the bunch), following main's bucket ordering",
    "free space: Z = Z0*Gamma(2/3)/3^(1/3)*e^{i pi/6}*h^(1/3) at 1e-3 (the repository rounds the constant to four digits); resistive wall: (1-i)*L/(2 pi b)*sqrt(omega*mu/(2 sigma)) with mu0 = 4 pi 1e-7 at 1e-3; collimator Z0/pi*ln(outer/inner) at 1e-5",
    "parallel plates vs free space with n_c = sqrt(2/3)(pi R/g)^(3/2): | |Zpp|/|Zfs| - 1 | <= 1% for f >= 5 f_c, Re Zpp/Re Zfs <= 1e-3 for f <= f_c/4",
    "program part: free-space CSR, resistive wall and collimator impedances as stored by real runs (/Impedance/data with its Ohm factor over /Info/AxisValues_f in Hertz) against the same formulas at 2e-3, with the bending radius as given (below and above c/(2 pi f_rev)) or not given",
    "repetition: a parallel-plates request repeated after another request with the same length, gap and harmonic step but another bending radius returns bit-identical samples",
    "causality: Gaussian probe (sigma 3 cells) through ElectricField::wakePotential; wake energy beyond 4 sigma on the wrong side at most 1/50 of that on the right side",
]


def run(ctx):
    ctx.assumptions = ASSUME
    ctx.rule = ("models: (model of 5, n from 2..4097 incl. tiny/odd/power-of-two neighbours, frequency range, revolution frequency, model parameters); factory: all 32 switch combinations x random parameters; "
                "causal: probe position/grid/model parameters; distinct by hash of the parameters")
    th = ctx.tier == "thorough"
    xdg = core.warm_wisdom(ctx, "c06")
    core.run_harness(ctx, "c16", 20000 if th else 800, args=["--mode", "models"])
    core.run_harness(ctx, "c16", 6400 if th else 640, args=["--mode", "factory"])
    core.run_harness(ctx, "c16", 2000 if th else 128, args=["--mode", "causal"], xdg=xdg)
    core.run_harness(ctx, "c16", 800 if th else 80, variant="asan", args=["--mode", "models"])
    core.run_harness(ctx, "c16", 640 if th else 64, variant="asan", args=["--mode", "factory"])
    ctx.min_events = {"pp_requests_repeated_after_a_similar_request": 50, "samples_checked": 50000, "factory_calls": 600, "factory_nothing_selected": 20, "probes": 100,
                      "pp_samples_above_5fc": 500, "pp_samples_below_fc4": 40,
                      "model.freespace": 100, "model.resistivewall": 100, "model.collimator": 100, "model.parallelplates": 100}
    from checks import c16_prog
    c16_prog.run(ctx)
