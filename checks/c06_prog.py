"""C06 program part: bucket spacing and padded length as main() derives them (src/main.cpp:303-321):
every bunch of a train is padded at bucket*round(spacing) and the stored wake is the convolution at that spacing."""
import os
import shutil

import numpy as np

from vlib import core, prog, physics, h5oracle


def run(ctx):
    sdir = ctx.scratch()
    n = 70 if ctx.tier == "thorough" else 14
    fracs = [0.05, 0.55, 0.3, 0.6, 0.45, 0.65, 0.7, 0.52, 0.92, 0.999, 0.501, 0.499, 0.58, 0.75]

    def one(i):
        r = core.Rng("c06prog", ctx.seed, i)
        d = os.path.join(sdir, "s%03d" % i)
        os.makedirs(d, exist_ok=True)
        g = r.choice([32, 48, 64])
        o = dict(GridSize=g, StepsPerTs=r.choice([64, 100]), rotations=0.25, outstep=r.choice([4, 8]), SavePhaseSpace=0, RenormalizeCharge=-1,
                 padding=r.choice([2.0, 8.0]))
        nbk = [3, 4, 5, 2, 3][i % 5]             # (truncating variants of the spacing arithmetic differ from rounding only for >= 3 buckets)
        txt = (i % 7 == 3)
        if txt:
            nbk = 1                              # a single bunch started from a text file of particle coordinates (its own factory path to a PhaseSpace)
        cur = [round(r.loguniform(1e-4, 6e-4), 7) for _ in range(nbk)]
        if nbk >= 3 and r.chance(0.5):
            cur[r.randint(1, nbk - 2)] = 0.0
        o["BunchCurrent"] = cur
        # aim at spacing (in cells) = k + frac with the wanted fractional part
        want_frac = fracs[i % len(fracs)]
        k = g * r.choice([2, 3]) + r.randint(0, 5)
        target = k + want_frac
        H = 400.0
        for _ in range(8):
            P = physics.derive(dict(o, HarmonicNumber=H))
            sp = g * (1.0 / (P["frev"] * P["H"])) * physics.C / P["bl"] / P["pq"]
            H = H * sp / target
        H = physics.f32(H)
        o["HarmonicNumber"] = H
        P = physics.derive(o)
        spc = g * (1.0 / (P["frev"] * P["H"])) * physics.C / P["bl"] / P["pq"]
        out = dict(i=i, opts=o, spacing_cells=spc, viol=[], compared=0)
        if abs(spc - round(spc)) < 1e-3 or abs(abs(spc - round(spc)) - 0.5) < 2e-4:
            out["skip"] = "spacing too close to a rounding boundary to take sides"
            return out
        if txt:
            rs = np.random.RandomState(r.randint(0, 2 ** 31 - 1))
            np.savetxt(os.path.join(d, "start.txt"), np.column_stack([rs.normal(0.2, 0.9, 20000), rs.normal(-0.1, 1.0, 20000)]), fmt="%.5f")
            o["InitialDistFile"] = os.path.join(d, "start.txt")
        res = prog.run_inovesa("rel", dict(o, output="o.h5"), d, os.path.join(d, "xdg"), timeout=900)
        out["txt"] = txt
        out["cmd"] = " ".join(res["argv"])
        if prog.program_outcome_key(res) or res["rc"] != 0:
            out["incon"] = "run failed: " + res["err"][-200:]
            return out
        h = prog.H5(os.path.join(d, "o.h5"))
        sp = P["spacing_bins"]
        # (1) padded profiles: bunch b at bucket*round(spacing), zero elsewhere (first half of the buffer is stored)
        pad = h["/BunchProfile/padded"].astype(np.float64)
        prof = h["/BunchProfile/data"].astype(np.float64)
        for rec, prec in ((0, 0), (pad.shape[0] - 1, prof.shape[0] - 1)):
            want = np.zeros(pad.shape[1])
            for b, bk in enumerate(P["buckets"]):
                lo = bk * sp
                if lo + g <= pad.shape[1]:
                    want[lo:lo + g] = prof[prec, b]
                elif lo < pad.shape[1]:
                    want[lo:] = prof[prec, b][:pad.shape[1] - lo]
            out["compared"] += 1
            mx = np.max(np.abs(want)) + 1e-300
            if np.max(np.abs(pad[rec] - want)) > 1e-6 * mx:
                nz = np.nonzero(pad[rec])[0]
                out["viol"].append(("C06:prog:bucket_position", "bunches of the padded train do not sit at bucket_number*spacing (spacing rounded to the nearest cell)",
                                    dict(options=o, cmd=out["cmd"], spacing_cells=spc, expected_spacing=sp, first_nonzero=int(nz[0]) if len(nz) else None,
                                         last_nonzero=int(nz[-1]) if len(nz) else None, buckets=P["buckets"])))
                break
        # (2) stored wake = convolution at that spacing and absolute scale
        rep = h5oracle.FileReport()
        h5oracle.check_file(h, dict(o, _has_wake=True), rep, pfx="C06:prog")
        for key, what, det in rep.viol:
            if ":wake" in key or "impedance_len" in key:
                out["viol"].append((key, what, dict(det, options=o, cmd=out["cmd"], spacing_cells=spc)))
        out["compared"] += rep.events.get("wake_records_compared", 0)
        out["wake_res"] = rep.res.get("wake_vs_convolution", (0, 1, 0))[2]
        shutil.rmtree(d, ignore_errors=True)
        return out

    for res in core.pmap(one, list(range(n))):
        if "skip" in res:
            continue
        if "incon" in res:
            ctx.inconcl("program case %d: %s" % (res["i"], res["incon"]))
            continue
        ctx.case("prog:%s" % sorted((k, str(v)) for k, v in res["opts"].items()))
        ctx.ev("program_trains")
        if res.get("txt"):
            ctx.ev("program_runs_started_from_a_text_file")
        ctx.ev("program_records_compared", res["compared"])
        ctx.residual("prog.wake_vs_convolution", res.get("wake_res", 0), 1.0)
        for key, what, det in res["viol"]:
            ctx.violation(key, what, det)
        ctx.sample(dict(options=res["opts"], spacing_in_cells=res["spacing_cells"]))
    ctx.min_events["program_trains"] = max(3, n // 2)
    ctx.min_events["program_runs_started_from_a_text_file"] = 1
