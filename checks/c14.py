"""C14 - Ctrl+C at any moment leaves a complete, consistent results file."""
import os
import shutil
import signal
import subprocess
import time

import numpy as np

from vlib import build, core, prog, physics, h5oracle

LEVEL = "fault_enumeration"

ASSUME = [
    "deterministic part: the guarded hook (VERIF_POINT in src/main.cpp, -DINOVESA_VERIF) raises a real SIGINT through the real handler when its counter reaches the requested value; the point log proves where each injection fired; every point of the chosen runs is enumerated once, plus pairs/triples for repeated signals",
    "inside the file writer: an LD_PRELOAD shim (tools/sigshim.c) on the same binary raises a real SIGINT on entry of the n-th H5Dwrite / H5Dset_extent call, i.e. while the program is inside HDF5File::append or the constructor's writes; every such call of the chosen runs is an interrupt point (quick tier: 90 evenly spread per scenario); the shim logs into the same file as the guarded hook, which places each call between two interrupt points of main() and so fixes the step in progress",
    "one always-enumerated scenario is started the way a non-interactive shell starts a background job (SIGINT inherited as ignored: the program's own handler must still be the one in force) and has a run length that is not a whole number of steps per period; every time stamp must be a whole number of steps",
    "one of the always-enumerated scenarios reads its start distribution from a text file (interrupts before, and with the flag already set during, the read)",
    "asynchronous part: real kill(SIGINT) at random delays, counted from the program's first line of output (the handler is installed before anything is printed: 'after start-up'), into the release binary with the hook dormant (environment unset)",
    "expected step reached: set-up points -> 0; loop points before the step counter is incremented -> step+1; after the increment / final block -> the step shown by the hook",
    "every record before the final one must be bit-identical to the same-step record of the uninterrupted run with the same options; the final record to the record of that step in a reference run that records every step (enumeration) / in a run of exactly that length (asynchronous part)",
    "log must end with 'Aborted.' (or 'Finished.' when the signal arrived after the last step); exit status 0; not killed by a signal",
]


def scenarios(seed, tier):
    r = core.Rng("c14", seed)
    sc = []
    base = [
        dict(GridSize=32, StepsPerTs=16, rotations=0.75, outstep=3, SavePhaseSpace=1, VacuumGap=0, verbose=True),
        dict(GridSize=32, StepsPerTs=20, rotations=0.5, outstep=1, SavePhaseSpace=2, _tracking=3),
        dict(GridSize=40, StepsPerTs=16, rotations=1.0, outstep=7, SavePhaseSpace=0, RenormalizeCharge=4),
        dict(GridSize=32, StepsPerTs=16, rotations=0.625, outstep=0, SavePhaseSpace=0),
        dict(GridSize=32, StepsPerTs=24, rotations=0.5, outstep=5, SavePhaseSpace=1, BunchCurrent=[8e-4, 5e-4], HarmonicNumber=400),
        dict(GridSize=32, StepsPerTs=16, rotations=0.5, outstep=4, SavePhaseSpace=1, RFPhaseModAmplitude=0.5, RFPhaseModFrequency=8000.0, _tracking=2),
        dict(GridSize=48, StepsPerTs=32, rotations=0.375, outstep=2, SavePhaseSpace=3, WallConductivity=3e7, InterpolationPoints=3),
        dict(GridSize=32, StepsPerTs=16, rotations=0.5, outstep=40, SavePhaseSpace=1, DampingTime=0.0),
        dict(GridSize=32, StepsPerTs=16, rotations=0.5, outstep=3, SavePhaseSpace=1, VacuumGap=0, _starttxt=600),       # start distribution read from a text file
        dict(GridSize=32, StepsPerTs=23, rotations=0.53, outstep=4, SavePhaseSpace=1, VacuumGap=0, _sigint_ignored=True),   # steps*rotations = 12.19: not a whole number; started with SIGINT inherited as ignored
    ]
    k = 10 if tier == "thorough" else 4
    order = r.shuffle(range(len(base)))
    # scenario 0 (no impedance) and the text-start scenario are always included, the others rotate with the seed
    chosen = [0, 8, 9] + [i for i in order if i not in (0, 8, 9)][: k - 3]
    for i in chosen:
        o = dict(base[i])
        if "BunchCurrent" not in o:
            o["BunchCurrent"] = [round(r.loguniform(2e-4, 1.5e-3), 7)]
        sc.append((i, o))
    return sc


def prepare(o, wd):
    run = {k: v for k, v in o.items() if not k.startswith("_")}
    if o.get("_tracking"):
        with open(os.path.join(wd, "trk.txt"), "w") as fh:
            for k in range(o["_tracking"]):
                fh.write("%.3f %.3f\n" % (0.5 * k - 0.7, 0.3 * k - 0.2))
        run["tracking"] = os.path.join(wd, "trk.txt")
    if o.get("_starttxt"):
        rr = core.Rng("c14start", o["_starttxt"])
        with open(os.path.join(wd, "start.txt"), "w") as fh:
            for k in range(o["_starttxt"]):
                fh.write("%.4f %.4f\n" % (0.8 * rr.uniform(-2, 2) + 0.3, 0.8 * rr.uniform(-2, 2)))
        run["InitialDistFile"] = os.path.join(wd, "start.txt")
    return run


def read_points(path):
    pts = []
    with open(path) as fh:
        for line in fh:
            f = line.split()
            if len(f) >= 3:
                pts.append((int(f[0]), f[1], int(f[2]), "(INJECTED)" in line))
    return pts


def expected_step(tag, step):
    if tag.startswith("setup:"):
        return 0
    if tag.startswith("loop:") or tag.startswith("out:"):
        return step + 1
    return step


def judge(ctx, h, P, run, ref, ref_steps, res, want_step, w, key_sfx, finished_ok):
    """common oracle for an interrupted run; returns number of records compared"""
    steps = P["steps"]
    tail = [l for l in res["out"].replace("\r", "\n").splitlines() if l.strip()]
    last = tail[-1] if tail else ""
    if "Aborted." not in last and not (finished_ok and "Finished." in last):
        ctx.violation("C14:message" + key_sfx, "log does not end with 'Aborted.'", dict(w, tail=tail[-3:]))
    t = h["/Info/AxisValues_t"].astype(float)
    if len(t) == 0:
        ctx.violation("C14:no_records" + key_sfx, "interrupted file has no records", w)
        return 0
    s = int(round(float(t[-1]) * steps))
    frac = float(np.max(np.abs(t.astype(float) * steps - np.rint(t.astype(float) * steps))))
    if frac > 1e-3:
        ctx.violation("C14:time_axis:fraction_of_a_step" + key_sfx, "a record of the interrupted run carries a time that is not a whole number of steps", dict(w, times=[float(x) for x in t[-3:]], worst_fraction=frac))
    if want_step is not None and s != want_step:
        ctx.violation("C14:step_reached" + key_sfx, "final record is not for the step in progress when the signal arrived",
                      dict(w, final_step=s, expected=want_step))
    rep = h5oracle.FileReport()
    chk = dict(run)
    chk["_has_wake"] = run.get("VacuumGap", 0.03) != 0
    Pd = physics.derive({k: v for k, v in chk.items() if not k.startswith("_")})
    h5oracle.check_structure(h, Pd, chk, rep, steps_done=s, pfx="C14")
    if ref is not None and "/RFKicks/data" in h and run.get("RFPhaseModAmplitude"):
        if h["/RFKicks/data"].shape[0] != s:
            rep.v("C14:rfkicks_len", "RF kick records are not one per executed step", records=int(h["/RFKicks/data"].shape[0]), steps=s)
    for key, what, det in rep.viol:
        ctx.violation(key + key_sfx, what, dict(w, **det))
    n = 0
    if ref is not None:
        # every record but the final one: identical to the uninterrupted run with the same options;
        # the final record (step s): identical to the reference run's record of step s (every step recorded there)
        import numpy as _np
        use_particles = (run.get("FPTrack", 3) != 3 and "tracking" in run)
        if ref_steps is not None:
            n1, bad1 = h5oracle.compare_common_records(ref_steps, _truncate(h, steps, s, keep_final=False), steps, particles=use_particles, allow_empty=True)
        else:
            n1, bad1 = 0, []
        n2, bad2 = h5oracle.compare_common_records(ref, _truncate(h, steps, s, keep_final=True), steps, particles=use_particles, allow_empty=True)
        n = n1 + n2
        have = set(h5oracle.step_index(h, steps)) - set(h5oracle.step_index(ref, steps))
        if have:
            ctx.violation("C14:unknown_record" + key_sfx, "interrupted file has a record for a step the reference does not have", dict(w, steps=sorted(have)[:5]))
        for b in bad1 + bad2:
            ctx.violation("C14:record_differs:%s%s" % (b["dataset"], key_sfx), "record of the interrupted run differs from the uninterrupted run's record of the same step",
                          dict(w, dataset=b["dataset"], step=b["step"], which=("earlier record vs same-options run" if b in bad1 else "final record vs every-step reference")))
    return n


class _View:
    """a results file restricted to the records before the final step (keep_final=False) or to the final record only"""

    def __init__(self, h, steps, s, keep_final):
        import numpy as np
        self.d = {}
        t = np.rint(h["/Info/AxisValues_t"].astype(float) * steps).astype(int)
        tp = np.rint(h["/PhaseSpace/axis0"].astype(float) * steps).astype(int)
        # final record = last index; earlier records = all but the last index
        nt, ntp = len(t), len(tp)
        for k, v in h.d.items():
            if k in ("/Info/AxisValues_t",) + tuple(h5oracle.PHYSICS_DATASETS) + ("/Particles/data",):
                if v.shape[0] == nt and nt > 0:
                    self.d[k] = v[-1:] if keep_final else v[:-1]
                else:
                    self.d[k] = v[:0]
            elif k in ("/PhaseSpace/axis0", "/PhaseSpace/data"):
                if v.shape[0] == ntp and ntp > 0:
                    self.d[k] = v[-1:] if keep_final else v[:-1]
                else:
                    self.d[k] = v[:0]
            else:
                self.d[k] = v

    def __contains__(self, k):
        return k in self.d

    def __getitem__(self, k):
        return self.d[k]


def _truncate(h, steps, s, keep_final):
    return _View(h, steps, s, keep_final)


def enumerate_scenario(ctx, idx, o, sdir):
    gd = os.path.join(sdir, "s%d" % idx)
    xdg = os.path.join(gd, "xdg")
    os.makedirs(xdg, exist_ok=True)
    run = prepare(o, gd)
    P = physics.derive({k: v for k, v in run.items()})
    exe_env = {}

    def go(name, extra_opts, env, fresh_xdg=False):
        wd = os.path.join(gd, name)
        os.makedirs(wd, exist_ok=True)
        oo = dict(run); oo.update(extra_opts); oo["output"] = "out.h5"
        # fresh_xdg: a data directory of its own, i.e. no stored FFT wisdom (the first run with this grid on a machine)
        return wd, prog.run_inovesa("rel", oo, wd, os.path.join(wd, "xdg") if fresh_xdg else xdg, timeout=300, env=env, inherit_sigint_ignored=bool(o.get("_sigint_ignored")))

    go("warm", dict(outstep=0, rotations=0.01), {})
    # reference with every step recorded, and the dry pass that lists the points
    rwd, rres = go("ref", dict(outstep=1, SavePhaseSpace=1), {})
    awd, ares = go("refsame", {}, {})       # uninterrupted run with the very same options (records before the final one)
    dwd, dres = go("dry", {}, {"INOVESA_VERIF_POINTLOG": "points.log"})
    if rres["rc"] != 0 or dres["rc"] != 0 or not os.path.exists(os.path.join(dwd, "points.log")):
        ctx.harness_errors.append("scenario %d: reference or dry pass failed: %s" % (idx, (rres["err"] + dres["err"])[-200:]))
        return
    ref = prog.H5(os.path.join(rwd, "out.h5"))
    refsame = prog.H5(os.path.join(awd, "out.h5")) if ares["rc"] == 0 else None
    pts = read_points(os.path.join(dwd, "points.log"))
    ctx.ev("interrupt_points_listed", len(pts))
    tags = sorted(set(p[1] for p in pts))
    ctx.extra.setdefault("point_tags_seen", set()).update(tags)
    r = core.Rng("c14multi", ctx.seed, idx)
    jobs = [((c,), tag, st) for c, tag, st, _ in pts]
    nmulti = 60 if ctx.tier == "thorough" else 24
    for _ in range(nmulti):
        ks = sorted(set(r.randint(1, len(pts)) for _ in range(r.choice([2, 2, 3]))))
        if len(ks) < 2:
            continue                        # (would collide with the single-point run of that point)
        c, tag, st, _ = pts[ks[0] - 1]
        jobs.append((tuple(ks), tag, st))
    jobs = list(dict((j[0], j) for j in jobs).values())
    # every set-up point once more without stored FFT wisdom (the plans are then made, patiently, during set-up - a long stretch in
    # which the first Ctrl+C of an impatient user arrives); scenario 0 only, its transforms are small
    if idx == 0:
        jobs += [((c,), tag, st, "nowisdom") for c, tag, st, _ in pts if tag.startswith("setup")]

    def one(job):
        ks, tag, st = job[:3]
        fresh = len(job) > 3
        name = "k" + "_".join(map(str, ks)) + ("_nowisdom" if fresh else "")
        wd, res = go(name, {}, {"INOVESA_VERIF_SIGINT_AT": ",".join(map(str, ks)), "INOVESA_VERIF_POINTLOG": "points.log"}, fresh_xdg=fresh)
        outp = dict(job=job, res=res, wd=wd)
        try:
            outp["pts"] = read_points(os.path.join(wd, "points.log"))
        except OSError:
            outp["pts"] = []
        return outp

    for outp in core.pmap(one, jobs):
        ks, tag, st = outp["job"][:3]
        nowis = len(outp["job"]) > 3
        res = outp["res"]
        w = dict(scenario=idx, options=run, points=list(ks), tag=tag, step_at_signal=st, cmd=" ".join(res["argv"]),
                 env="INOVESA_VERIF_SIGINT_AT=%s" % ",".join(map(str, ks)), stored_fft_wisdom=not nowis)
        sfx = ":" + tag.split(":")[0] + (":no_wisdom" if nowis else "")
        ctx.case("s%d:%s%s" % (idx, ks, ":nowisdom" if nowis else ""))
        if nowis:
            ctx.ev("setup_interrupts_without_stored_wisdom")
        inj = [p for p in outp["pts"] if p[3]]
        if not inj or inj[0][0] != ks[0] or inj[0][1] != tag:
            ctx.inconcl("scenario %d point %s: injection did not fire where intended (%s)" % (idx, ks, inj[:1]))
            continue
        ctx.ev("injections_confirmed", len(inj))
        ctx.ev("injected." + tag.split(":")[0])
        bad = prog.program_outcome_key(res)
        if bad:
            ctx.violation("C14:" + bad[0] + sfx, "interrupted run did not end by itself with success: " + bad[1], dict(w, stderr=res["err"][-800:]))
            continue
        if res["rc"] != 0:
            ctx.violation("C14:exit_status" + sfx, "interrupted run exits with failure status %s" % res["rc"], dict(w, stderr=res["err"][-500:]))
            continue
        f = os.path.join(outp["wd"], "out.h5")
        try:
            h = prog.H5(f)
        except (IOError, OSError) as ex:
            ctx.violation("C14:unreadable" + sfx, "results file of the interrupted run cannot be read", dict(w, error=str(ex)))
            continue
        # (without stored wisdom FFTW may choose other plans: nothing is compared bit for bit across wisdom, the file oracle applies in full)
        n = judge(ctx, h, P, run, None if nowis else ref, None if nowis else refsame, res, expected_step(tag, st), w, sfx, finished_ok=tag.startswith(("final", "loopend")))
        ctx.ev("records_compared_bitwise", n)
        if not os.environ.get("VERIF_KEEP"):
            shutil.rmtree(outp["wd"], ignore_errors=True)
    ctx.sample(dict(scenario=idx, options=run, interrupt_points=len(pts), repeated_signal_runs=nmulti, tags=tags[:12]))
    # ---- interrupt points inside the HDF5 writes (LD_PRELOAD shim on the same binary; tools/sigshim.c) ---------------------------
    try:
        shim = build.build_shlib("sigshim")
    except RuntimeError as ex:
        ctx.harness_errors.append("sigshim does not build: %s" % str(ex)[-200:])
        return
    swd, sres = go("shimdry", {}, {"LD_PRELOAD": shim, "VERIF_SHIM_LOG": "points.log", "INOVESA_VERIF_POINTLOG": "points.log"})

    def read_mixed(path):
        """-> list of shim calls (counter, function, injected, preceding hook point (tag, step))"""
        calls, prev = [], ("setup:start", 0)
        with open(path) as fh:
            for line in fh:
                f = line.split()
                if len(f) >= 3 and f[0] == "S":
                    calls.append((int(f[1]), f[2], "(INJECTED)" in line, prev))
                elif len(f) >= 3 and f[0].isdigit():
                    prev = (f[1], int(f[2]))
        return calls
    try:
        calls = read_mixed(os.path.join(swd, "points.log"))
    except OSError:
        calls = []
    if sres["rc"] != 0 or not calls:
        ctx.harness_errors.append("scenario %d: shim dry pass failed or saw no HDF5 write (%s)" % (idx, sres["err"][-200:]))
        return
    ctx.ev("hdf5_write_calls_listed", len(calls))
    cap = len(calls) if ctx.tier == "thorough" else 90
    sel = calls if len(calls) <= cap else [calls[i] for i in sorted(set(int(round(j * (len(calls) - 1) / (cap - 1.0))) for j in range(cap)))]
    sjobs = [((c[0],), c) for c in sel]
    for _ in range(8 if ctx.tier == "thorough" else 4):          # two signals inside two different writes
        a, b = sorted((r.randint(1, len(calls)), r.randint(1, len(calls))))
        if a != b:
            sjobs.append(((a, b), calls[a - 1]))

    # bursts: many signals in a row at one call (a key held down, a job wrapper that keeps signalling) - counts around the widths of small counters
    bursts = [2, 255, 256, 257, 512, 65536] if ctx.tier == "thorough" else [256, 257, 512, 3]
    for bi, nsig in enumerate(bursts):
        c = calls[r.randint(0, len(calls) - 1)]
        sjobs.append(((c[0],), c, nsig))

    def sone(job):
        ks, c = job[0], job[1]
        env = {"LD_PRELOAD": shim, "VERIF_SHIM_SIGINT_AT": ",".join(map(str, ks)), "VERIF_SHIM_LOG": "points.log", "INOVESA_VERIF_POINTLOG": "points.log"}
        name = "w" + "_".join(map(str, ks))
        if len(job) > 2:
            env["VERIF_SHIM_SIGINT_REPEAT"] = str(job[2])
            name += "x%d" % job[2]
        wd, res = go(name, {}, env)
        try:
            got = read_mixed(os.path.join(wd, "points.log"))
        except OSError:
            got = []
        return dict(job=job, res=res, wd=wd, calls=got)

    for outp in core.pmap(sone, sjobs):
        ks, c = outp["job"][0], outp["job"][1]
        nsig = outp["job"][2] if len(outp["job"]) > 2 else 1
        res = outp["res"]
        inj = [x for x in outp["calls"] if x[2]]
        ctx.case("s%d:w%s%s" % (idx, ks, "x%d" % nsig if nsig > 1 else ""))
        if nsig > 1:
            ctx.ev("signal_bursts_inside_hdf5_writes")
        if not inj or inj[0][0] != ks[0]:
            ctx.inconcl("scenario %d write %s: injection did not fire where intended" % (idx, ks))
            continue
        tag, st = inj[0][3]
        w = dict(scenario=idx, options=run, hdf5_calls=list(ks), function=c[1], after_point=tag, step_at_signal=st, cmd=" ".join(res["argv"]),
                 env="LD_PRELOAD=sigshim VERIF_SHIM_SIGINT_AT=%s%s" % (",".join(map(str, ks)), " VERIF_SHIM_SIGINT_REPEAT=%d" % nsig if nsig > 1 else ""), signals_in_a_row=nsig)
        sfx = ":inside_write:" + tag.split(":")[0] + (":burst" if nsig > 1 else "")
        ctx.ev("injections_inside_hdf5_writes_confirmed", len(inj))
        bad = prog.program_outcome_key(res)
        if bad:
            ctx.violation("C14:" + bad[0] + sfx, "run interrupted inside an HDF5 write did not end by itself with success: " + bad[1], dict(w, stderr=res["err"][-800:]))
            continue
        if res["rc"] != 0:
            ctx.violation("C14:exit_status" + sfx, "run interrupted inside an HDF5 write exits with failure status %s" % res["rc"], dict(w, stderr=res["err"][-500:]))
            continue
        try:
            h = prog.H5(os.path.join(outp["wd"], "out.h5"))
        except (IOError, OSError) as ex:
            ctx.violation("C14:unreadable" + sfx, "results file of the run interrupted inside an HDF5 write cannot be read", dict(w, error=str(ex)))
            continue
        # the write lies between the hook point logged before it and the next one: the step in progress is the one that point implies
        n = judge(ctx, h, P, run, ref, refsame, res, expected_step(tag, st), w, sfx, finished_ok=tag.startswith(("final", "loopend")))
        ctx.ev("records_compared_bitwise", n)
        if not os.environ.get("VERIF_KEEP"):
            shutil.rmtree(outp["wd"], ignore_errors=True)


def async_part(ctx, sdir):
    n = 400 if ctx.tier == "thorough" else 32
    gd = os.path.join(sdir, "async")
    xdg = os.path.join(gd, "xdg")
    os.makedirs(xdg, exist_ok=True)
    exe = os.path.join(build.build("rel"), "inovesa")
    base = dict(GridSize=64, StepsPerTs=1024, rotations=3.0, outstep=64, SavePhaseSpace=4, BunchCurrent=[5e-4])
    env = dict(os.environ, XDG_DATA_HOME=xdg, HOME=gd)
    env.pop("INOVESA_VERIF_SIGINT_AT", None)
    env.pop("INOVESA_VERIF_POINTLOG", None)

    def argv(o):
        return [exe, "--config", "/dev/null"] + prog.to_args(o)

    wd0 = os.path.join(gd, "warm"); os.makedirs(wd0, exist_ok=True)
    subprocess.run(argv(dict(base, rotations=0.01, output="w.h5")), cwd=wd0, env=env, stdout=subprocess.DEVNULL, stderr=subprocess.DEVNULL, timeout=600)
    t0 = time.time()
    subprocess.run(argv(dict(base, output="t.h5")), cwd=wd0, env=env, stdout=subprocess.DEVNULL, stderr=subprocess.DEVNULL, timeout=600)
    dur = time.time() - t0
    P = physics.derive(dict(base))

    def one(i):
        r = core.Rng("c14async", ctx.seed, i)
        wd = os.path.join(gd, "a%04d" % i); os.makedirs(wd, exist_ok=True)
        nsig = r.choice([1, 1, 2, 3])
        delays = sorted(r.uniform(0, 1.3 * dur) for _ in range(nsig))
        # with many processes in parallel the run is slower than measured alone; delays scale with load
        p = subprocess.Popen(argv(dict(base, output="out.h5")), cwd=wd, env=env, stdout=subprocess.PIPE, stderr=subprocess.PIPE)
        first = p.stdout.readline()          # "Started Inovesa ...": the handler is installed before anything is printed ("after start-up")
        t1 = time.time()
        sent = 0
        for d in delays:
            time.sleep(max(0.0, d * 1.5 - (time.time() - t1)))
            if p.poll() is None:
                p.send_signal(signal.SIGINT); sent += 1
        try:
            so, se = p.communicate(timeout=300)
            hang = False
        except subprocess.TimeoutExpired:
            p.kill(); so, se = p.communicate(); hang = True
        res = dict(rc=p.returncode, out=(first + so).decode(errors="replace"), err=se.decode(errors="replace"), hang=hang, argv=argv(dict(base, output="out.h5")))
        o = dict(i=i, res=res, wd=wd, sent=sent, delays=delays)
        if hang or p.returncode != 0 or sent == 0:
            return o
        try:
            h = prog.H5(os.path.join(wd, "out.h5"))
        except (IOError, OSError) as ex:
            o["unreadable"] = str(ex); return o
        s = int(round(float(h["/Info/AxisValues_t"][-1]) * P["steps"]))
        o["h"] = h; o["s"] = s
        # reference of exactly that length (1024 steps per period: T = s/1024 is exact in single precision)
        rwd = os.path.join(wd, "ref"); os.makedirs(rwd, exist_ok=True)
        rr = subprocess.run(argv(dict(base, rotations=s / 1024.0, output="out.h5")), cwd=rwd, env=env, stdout=subprocess.PIPE, stderr=subprocess.PIPE, timeout=600)
        if rr.returncode == 0 and s > 0:
            o["ref"] = prog.H5(os.path.join(rwd, "out.h5"))
        return o

    for o in core.pmap(one, list(range(n)), jobs=8):
        res = o["res"]
        w = dict(kind="async", delays=o["delays"], signals_sent=o["sent"], cmd=" ".join(res["argv"]))
        if o["sent"] == 0:
            ctx.ev("async_finished_before_signal")
            continue
        ctx.case("async:%d" % o["i"])
        ctx.ev("async_signals_delivered", o["sent"])
        bad = prog.program_outcome_key(res)
        if bad:
            ctx.violation("C14:" + bad[0] + ":async", "asynchronously interrupted run did not end by itself with success: " + bad[1], dict(w, stderr=res["err"][-800:]))
            continue
        if res["rc"] != 0:
            ctx.violation("C14:exit_status:async", "asynchronously interrupted run exits with status %s" % res["rc"], dict(w, stderr=res["err"][-500:]))
            continue
        if "unreadable" in o:
            ctx.violation("C14:unreadable:async", "results file of the interrupted run cannot be read", dict(w, error=o["unreadable"]))
            continue
        run = dict(base)
        s = o["s"]
        if s >= P["laststep"]:
            ctx.ev("async_signal_after_last_step")
        n = judge(ctx, o["h"], P, run, o.get("ref"), o.get("ref"), res, None, dict(w, final_step=s), ":async", finished_ok=(s >= P["laststep"]))
        ctx.ev("records_compared_bitwise", n)
        ctx.ev("async_runs_judged")
        if s == 0:
            ctx.ev("async_interrupted_in_setup")
        shutil.rmtree(o["wd"], ignore_errors=True)


def run(ctx):
    ctx.assumptions = ASSUME
    ctx.rule = ("deterministic: for each chosen short scenario (4 quick / 10 thorough; with/without impedance, tracking, phase-space saving, 1-2 bunches, RF modulation, renormalisation) a dry pass lists every interrupt point, "
                "then one run per point plus 24/60 runs with 2-3 signals, then one run per HDF5 write call (shim; 90 evenly spread / all) plus 4/8 runs with signals inside two writes; distinct = (scenario, point set); non-trivial = the hook log confirms the injection fired at the intended point. "
                "asynchronous: real SIGINTs at random delays (1-3 per run) into a 3072-step run")
    sdir = ctx.scratch()
    for idx, o in scenarios(ctx.seed, ctx.tier):
        enumerate_scenario(ctx, idx, o, sdir)
    async_part(ctx, sdir)
    tags = ctx.extra.pop("point_tags_seen", set())
    ctx.extra["point_tags_seen"] = sorted(tags)
    ctx.extra["explanation"] = "every interrupt point of the chosen runs was injected once (complete for those runs); the set of runs is a sample"
    ctx.min_events = {"setup_interrupts_without_stored_wisdom": 10, "signal_bursts_inside_hdf5_writes": 8, "injections_confirmed": 300, "injected.setup": 20, "injected.loop": 100, "injected.out": 20,
                      "injected.final": 5, "injected.loopend": 5, "records_compared_bitwise": 3000, "async_runs_judged": 10,
                      "injections_inside_hdf5_writes_confirmed": 100}
