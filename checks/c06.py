"""C06 - wake potential = discrete convolution of bunch profiles with the impedance."""
from vlib import core

ASSUME = [
    "reference: O(N^2) double-precision DFT of the zero-padded train (bunch b at bucket[b]*spacing), W_j = s/N*[Re(Z0 F0) + 2 Re sum_{0<k<floor(N/2)} Z_k F_k e^{+2 pi i j k/N}], s = Ib*dt*c/(sigma_z*dE_cell) recomputed from the constructor arguments",
    "the top bin floor(N/2) is neither required nor forbidden: the generator zeroes the impedance there; arbitrary values in the upper (negative-frequency) half must have no influence",
    "a quarter of the impedances end early (zero from a random index below N/2 on, like a short impedance file) and are always asked after another profile's wake",
    "half of the fields are asked for a CSR spectrum (and sometimes a wake of another profile) before the wake that is checked",
    "program part: trains whose bucket spacing in cells of 2-5 buckets has a chosen fractional part (0.05 ... 0.999, half of them in [0.5, 0.75]): padded profiles must sit at bucket*round(spacing) and the stored wake must be the convolution at that spacing (spacings within 1e-3 of an integer or 2e-4 of a half are not generated)",
    "tolerance 1e-5*max|W| (single-precision FFT; unchanged code observed <= 1e-6)",
]


def run(ctx):
    ctx.assumptions = ASSUME
    ctx.rule = ("case = (grid 8..64, 1-5 bunches in up to 8 buckets with empty buckets anywhere, spacing n..3n, transform length: power of two / composite / odd / prime up to 4099, random complex impedance, random signed / gaussian / sparse profiles); "
                "distinct by hash(N, n, nb, profile)")
    th = ctx.tier == "thorough"
    xdg = core.warm_wisdom(ctx, "c06")
    core.run_harness(ctx, "c06", 40000 if th else 1920, args=["--mode", "c06"], xdg=xdg)
    core.run_harness(ctx, "c06", 3000 if th else 192, variant="asan", args=["--mode", "c06"], xdg=xdg)
    ctx.min_events = {"fields_checked": 1000, "wake_values_compared": 5000, "non_power_of_two_lengths": 100, "fields_with_call_history": 300, "impedances_ending_early": 200}
    from checks import c06_prog
    c06_prog.run(ctx)
