"""C18 - wake and CSR spectrum depend on the current profile only, not on past calls."""
from vlib import core

ASSUME = [
    "the long-lived and the fresh object live in the same process and read the same (pre-warmed) FFT wisdom, so both use the same plans; equality is bit-for-bit (memcmp semantics, +0/-0 identified)",
    "compared after every request: wake potentials of all bunches, the whole padded profile, CSR spectrum of all bunches and the CSR power",
]


def run(ctx):
    ctx.assumptions = ASSUME
    ctx.rule = ("case = one long-lived field (transform length from the C06 table: power of two/composite/odd/prime; 1-5 bunches incl. patterns with bucket 0 empty) driven through a random history "
                "of 2..40 operations {new profile, wake, pad, csr(cutoff)}; distinct by hash(N, n, nb, history)")
    th = ctx.tier == "thorough"
    xdg = core.warm_wisdom(ctx, "c06")
    core.run_harness(ctx, "c18", 20000 if th else 960, xdg=xdg)
    core.run_harness(ctx, "c18", 1500 if th else 96, variant="asan", xdg=xdg)
    ctx.min_events = {"requests_compared": 5000, "op.wake": 1000, "op.pad": 1000, "op.csr": 1000,
                      "non_power_of_two_lengths": 200, "impedances_ending_early": 100}
