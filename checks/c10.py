"""C10 - each record of the results file describes one instant, consistently."""
import os
import queue

from vlib import core, prog, physics, h5oracle

ASSUME = [
    "two files in 32 are 'scale' cases: a grid of 513-1030 cells, and 260-300 buckets with individual currents (a few steps each)",
    "a third of the files use machine parameters away from their defaults (phase space size, revolution frequency, beam energy and spread, RF voltage, bending radius, cutoff frequency, alpha1/alpha2)",
    "a quarter of the single-bunch files come from runs started from a crafted start file (two off-centre blobs), mostly without renormalisation",
    "one file in eight comes from a run interrupted by a real SIGINT at a random interrupt point (guarded hook); its final step is the one the hook's log implies (set-up: 0, inside a step: step+1)",
    "final step = ceil(steps*T) with T in single precision as the program takes it; the generator uses dyadic T or T with steps*T well away from an integer, so the oracle never takes sides on that rounding",
    "datasets the configuration does not use have zero records (/WakePotential without impedance); /RFKicks is per step and belongs to C19",
    "projections/moments use the quadrature the code base defines (Simpson weights delta/3*(1,4,2,...,1); moments by rectangle rule over the profile, normalised by the Simpson integral), evaluated by numpy in double on the *true* grid coordinates min+i*delta of the respective axis",
    "at a record whose step renormalises the charge (RenormalizeCharge=n, step % n == 0) the program takes the position profile before and saves the grid after the rescaling: the oracle applies the exact factor share/population and requires 2e-5 then; if the raw comparison fails there, that is reported under its own key",
    "moment tolerances follow a single-precision accumulation model (2e-5 of max(extent, sum|terms|)); records of diverged runs (NaN, no positive variance, renormalisation factor off by more than 5%) are skipped for the affected comparison and counted",
    "wake reference: numpy FFT convolution of the stored profile with the stored impedance; absolute scale Ib*dt*c/(sigma_z*dE_cell)/N from independent formulas for sigma_z, f_s, dt; the bunch currents are taken from the invocation (the file does not store them)",
    "CSR rows: spectrum_b*|F_0|^2 = spectrum_0*|F_b|^2 with F the oracle's FFT of the stored profiles (identifies the bunch independent of the radiation impedance); intensity = delta_f * sum(stored spectrum) plus the top bin N/2 (which enters the intensity but is not stored), estimated as last stored bin * |F_top|^2/|F_last|^2 from the oracle's FFT, within 2e-4 + 60% of that estimate",
]


class XdgPool:
    def __init__(self, root, n):
        self.q = queue.Queue()
        for i in range(n):
            d = os.path.join(root, "xdg%02d" % i)
            os.makedirs(d, exist_ok=True)
            self.q.put(d)

    def get(self):
        return self.q.get()

    def put(self, d):
        self.q.put(d)


def has_wake(o):
    gap = o.get("VacuumGap", 0.03)
    if o.get("Impedance"):
        return True
    if gap == 0:
        return False
    radius = abs(gap / 2)
    return bool(o.get("UseCSR", True)) or (o.get("WallConductivity", 0) > 0 and o.get("WallSusceptibility", 0) >= -1) \
        or (0 < o.get("CollimatorRadius", 0) < radius)


def gen_case(seed, i, tier):
    r = core.Rng("c10", seed, i)
    o = {}
    n = r.choice([32, 40, 48, 64, 64, 96, 128] if tier == "thorough" else [32, 40, 48, 64, 64, 96])
    if r.chance(0.25):
        n += r.choice([1, 2, 3])           # every residue modulo 4 (blocked / unrolled loops over columns)
    o["GridSize"] = n
    if r.chance(0.6):
        o["PhaseSpaceShiftX"] = round(r.uniform(-4, 4), 2)
        o["PhaseSpaceShiftY"] = round(r.uniform(-4, 4), 2)
        if i % 5 == 3:
            # grid shifted by up to a quarter of its size: noticeable charge in the outermost columns / rows
            o["PhaseSpaceShiftX"] = round(r.uniform(0.15, 0.27) * n * r.choice([-1, 1]), 2)
            o["PhaseSpaceShiftY"] = round(r.uniform(0.15, 0.27) * n * r.choice([-1, 1]), 2)
        if abs(o["PhaseSpaceShiftX"] - o["PhaseSpaceShiftY"]) < 0.3:
            o["PhaseSpaceShiftY"] += 1.0
    steps = r.choice([37, 50, 64, 100, 200, 400])
    usetrev = r.chance(0.15)
    o["StepsPerTs"] = steps
    T = r.choice([0.25, 0.5, 0.75, 1.0, 0.125, 0.375])
    o["rotations"] = T
    last = prog.laststep(steps, T)
    o["outstep"] = r.choice([1, 3, 7, 7, last + 5, 0, 10])
    o["SavePhaseSpace"] = r.choice([0, 1, 1, 2, 5])
    o["RenormalizeCharge"] = r.choice([-1, 0, 0, 3, 10])
    # filling
    nbk = r.choice([1, 1, 1, 2, 3])
    cur = [round(r.loguniform(1e-4, 2e-3) / nbk, 7) for _ in range(nbk)]
    if nbk == 3 and r.chance(0.6):
        cur[1] = 0.0
    if nbk > 1:
        o["HarmonicNumber"] = r.choice([300, 400, 600])   # buckets a few phase-space widths apart
    o["BunchCurrent"] = cur
    imp = r.choice(["none", "csr", "csr", "freespace", "file", "wall"])
    if imp == "none":
        o["VacuumGap"] = 0
    elif imp == "freespace":
        o["VacuumGap"] = -0.03
    elif imp == "wall":
        o["WallConductivity"] = r.loguniform(1e6, 6e7)
        o["UseCSR"] = r.chance(0.5)
    elif imp == "file":
        o["VacuumGap"] = 0
        o["_impfile"] = True
    if r.chance(0.3):
        o["padding"] = r.choice([2.0, 4.0, 3.0])
    if r.chance(0.25) and nbk == 1:
        o["RoundPadding"] = False     # (multi-bucket trains without rounding need PATIENT plans for huge odd lengths)
    if r.chance(0.3):
        o["_tracking"] = r.randint(1, 6)
    if r.chance(0.25):
        o["InterpolationPoints"] = r.choice([2, 3])
    if r.chance(0.2):
        o["derivation"] = 3
    if r.chance(0.2):
        o["SynchrotronFrequency"] = float(r.choice([8000, 12000, 30000]))
    if usetrev and "SynchrotronFrequency" in o and nbk == 1:
        # steps per revolution: steps per period becomes non-integer
        o["StepsPerRevolution"] = round(steps * o["SynchrotronFrequency"] / 9e6 * r.uniform(0.9, 1.1), 6)
    if r.chance(0.2):
        o["DampingTime"] = r.choice([0.0, 5e-3])
    if i % 3 == 1:
        # machine parameters away from their defaults: axes, unit attributes and the absolute wake scale must follow them
        if r.chance(0.5):
            o["PhaseSpaceSize"] = r.choice([8.0, 10.0, 14.0, 16.0])
        if r.chance(0.4) and nbk == 1:
            o["RevolutionFrequency"] = r.choice([2.7e6, 5e6, 1.2e7])
        if r.chance(0.4):
            o["BeamEnergy"] = r.choice([0.6e9, 1.0e9, 1.6e9, 2.5e9])
        if r.chance(0.4):
            o["AcceleratingVoltage"] = r.choice([1.1e6, 1.4e6, 3e6])
        if r.chance(0.3):
            o["BendingRadius"] = r.choice([4.0, 8.0])
        if r.chance(0.3):
            o["BeamEnergySpread"] = r.choice([3e-4, 1e-3])
        if r.chance(0.3):
            o["CutoffFreq"] = r.choice([0.0, 1e10, 5e10])
        if r.chance(0.3):
            o["alpha1"] = r.choice([2e-2, -1e-2])
        if r.chance(0.15):
            o["alpha2"] = r.choice([0.1, -0.2])
        o["_machine"] = True
    if nbk == 1 and i % 8 in (2, 6):
        # the run starts from a distribution read from a file (two off-centre blobs, nothing like the built-in Gaussian):
        # record 0 must describe *that* distribution, whatever the renormalisation setting
        o["_startfile"] = True
        o["RenormalizeCharge"] = r.choice([-1, -1, 0, 3])
    if i % 32 == 9:
        # scale: a grid far beyond the everyday sizes (blocked / pairwise loops over more than 512 cells), a handful of steps
        o = dict(GridSize=r.choice([513, 640, 1024, 1030]), StepsPerTs=1000, rotations=0.004, outstep=2, SavePhaseSpace=1,
                 RenormalizeCharge=r.choice([-1, 0, 2]), BunchCurrent=[round(r.loguniform(2e-4, 2e-3), 7)], padding=2.0,
                 PhaseSpaceShiftX=round(r.uniform(-30, 30), 1), PhaseSpaceShiftY=round(r.uniform(31, 60), 1), _scale="grid")
    if i % 32 == 25:
        # scale: several hundred filled buckets, each with its own current (small grid, buckets two phase-space widths apart)
        nbk = r.choice([260, 270, 300])
        o = dict(GridSize=32, StepsPerTs=1000, rotations=0.004, outstep=2, SavePhaseSpace=r.choice([0, 2]), HarmonicNumber=2000,
                 BunchCurrent=[round(r.loguniform(1e-5, 6e-5), 9) if (k % 37 != 11) else 0.0 for k in range(nbk)], _scale="buckets")
    return o


def run_case(args):
    ctx, i, pool, sdir = args
    o = gen_case(ctx.seed, i, ctx.tier)
    wd = os.path.join(sdir, "c%05d" % i)
    os.makedirs(wd, exist_ok=True)
    xdg = pool.get()
    try:
        run_opts = {k: v for k, v in o.items() if not k.startswith("_")}
        P = physics.derive(run_opts)
        if P["nbuckets"] > 1 and not o.get("_scale") and (P["spacing_bins"] is None or P["spacing_bins"] < P["n"] or P["wake_N"] > 70000):
            return dict(i=i, skip="filling pattern would overlap or transform too long")
        if o.get("StepsPerRevolution"):
            # keep steps*T away from an integer
            x = P["steps"] * physics.f32(o["rotations"])
            if abs(x - round(x)) < 1e-3:
                return dict(i=i, skip="steps*T too close to an integer")
        if o.get("_impfile"):
            r = core.Rng("c10imp", ctx.seed, i)
            with open(os.path.join(wd, "imp.dat"), "w") as fh:
                for k in range(P["wake_N"]):
                    fh.write("%d %.6g %.6g\n" % (k, r.uniform(0, 50) if k <= P["wake_N"] // 2 else 0.0,
                                                 r.uniform(-50, 50) if k <= P["wake_N"] // 2 else 0.0))
            run_opts["Impedance"] = "imp.dat"
        if o.get("_tracking"):
            r = core.Rng("c10trk", ctx.seed, i)
            with open(os.path.join(wd, "trk.txt"), "w") as fh:
                for k in range(o["_tracking"]):
                    fh.write("%.4f %.4f\n" % (r.uniform(-3, 3) + P["qc"], r.uniform(-3, 3) + P["pc"]))
            run_opts["tracking"] = "trk.txt"
        if o.get("_startfile"):
            from checks import c03
            rr = core.Rng("c10start", ctx.seed, i)
            blobs = [(P["qc"] + rr.uniform(-1.2, 1.2), P["pc"] + rr.uniform(-1.2, 1.2), max(rr.uniform(0.5, 0.9), 3 * P["delta"]), rr.uniform(0.3, 1)) for _ in range(2)]
            if not c03.write_start(os.path.join(wd, "start.h5"), P["n"], P["qc"], P["pc"], P["pq"], blobs, normalise=True):
                return dict(i=i, skip="could not craft the start file")
            run_opts["InitialDistFile"] = "start.h5"
        run_opts["output"] = "out.h5"
        env = None
        steps_done = None
        if i % 8 == 5:
            # an interrupted run is a results file too: a real SIGINT through the guarded hook at a random interrupt point
            rr = core.Rng("c10int", ctx.seed, i)
            env = {"INOVESA_VERIF_SIGINT_AT": str(rr.randint(10, 40 + 18 * max(1, P["laststep"]))), "INOVESA_VERIF_POINTLOG": "points.log"}
        res = prog.run_inovesa("rel", run_opts, wd, xdg, timeout=600, env=env)
        if env:
            from checks import c14
            try:
                inj = [p for p in c14.read_points(os.path.join(wd, "points.log")) if p[3]]
            except OSError:
                inj = []
            if inj:
                steps_done = c14.expected_step(inj[0][1], inj[0][2])
        out = dict(i=i, opts=run_opts, cmd=" ".join(res["argv"]))
        bad = prog.program_outcome_key(res)
        if bad:
            out["crash"] = bad
            out["stderr"] = res["err"][-1500:]
            return out
        if res["rc"] != 0 or not os.path.exists(os.path.join(wd, "out.h5")):
            out["noout"] = res["out"][-500:] + res["err"][-500:]
            return out
        h = prog.H5(os.path.join(wd, "out.h5"))
        rep = h5oracle.FileReport()
        chk = dict(run_opts)
        chk["_has_wake"] = has_wake(run_opts)
        h5oracle.check_file(h, chk, rep, steps_done=steps_done)
        out["interrupted"] = steps_done is not None
        out["from_start_file"] = bool(o.get("_startfile"))
        out["machine"] = bool(o.get("_machine"))
        out["scale"] = o.get("_scale")
        ntrk = o.get("_tracking", 0)
        if h["/Particles/data"].shape[1:] != (ntrk, 2):
            rep.v("C10:particles_shape", "particle dataset does not have one row per tracked particle", shape=list(h["/Particles/data"].shape), particles=ntrk)
        out["rep"] = rep
        out["records"] = int(h["/Info/AxisValues_t"].shape[0])
        out["sig"] = "%s" % sorted((k, str(v)) for k, v in run_opts.items())
        return out
    finally:
        pool.put(xdg)
        if not os.environ.get("VERIF_KEEP"):
            import shutil
            shutil.rmtree(wd, ignore_errors=True)


def run(ctx):
    ctx.assumptions = ASSUME
    ctx.rule = ("case = one program run with random (grid 32..128 even/odd, shifts X != Y, 1-3 buckets incl. empty, outstep in {1,3,7,10,>last,0}, SavePhaseSpace in {0,1,2,5}, "
                "steps per period, rotations, impedance none/CSR/free space/file/wall, renormalisation -1/0/n, tracking, padding, interpolation); distinct by the option set; "
                "non-trivial = produced a results file that was checked record by record")
    n = 640 if ctx.tier == "thorough" else 64
    sdir = ctx.scratch()
    pool = XdgPool(sdir, core.NCPU)
    results = core.pmap(run_case, [(ctx, i, pool, sdir) for i in range(n)])
    for res in results:
        if res.get("skip"):
            continue
        ctx.case()
        w = dict(cmd=res.get("cmd"), case=res["i"])
        if "crash" in res:
            key, what = res["crash"]
            ctx.violation("C10:run:" + key, "program run for a valid configuration failed: " + what, dict(w, stderr=res.get("stderr")))
            continue
        if "noout" in res:
            ctx.inconcl("case %d produced no results file: %s" % (res["i"], res["noout"][-200:]))
            continue
        ctx.sigs.add(res["sig"])
        ctx.ev("files_checked")
        if res.get("interrupted"):
            ctx.ev("interrupted_files_checked")
        if res.get("from_start_file"):
            ctx.ev("files_of_runs_started_from_a_file")
        if res.get("machine"):
            ctx.ev("files_with_non_default_machine_parameters")
        if res.get("scale"):
            ctx.ev("files_at_scale." + res["scale"])
        ctx.ev("records_checked", res["records"])
        res["rep"].merge_into(ctx, w)
        ctx.sample(dict(options=res["opts"], records=res["records"]))
    ctx.min_events = {"files_checked": max(10, n // 2), "projections_compared": 100, "moment_records_compared": 200,
                      "wake_records_compared": 30, "files_of_runs_started_from_a_file": max(3, n // 12), "files_with_non_default_machine_parameters": max(5, n // 6), "csr_records_compared": 100, "unit_attributes_checked": 200,
                      "files_at_scale.grid": 1, "files_at_scale.buckets": 1}
