"""C02 - whole-cell shifts are lossless; fractional shifts reproduce polynomials."""
from vlib import core

ASSUME = [
    "'every whole-cell displacement that fits the grid' = -n/2 <= d < n - n/2, the range a kick-map table can represent (source indices are stored relative to the grid centre)",
    "bit equality identifies +0 and -0; test data are finite (include negatives, denormals, 60 decades of dynamic range)",
    "polynomial reproduction is required only where the whole stencil lies inside the grid; tolerance 6e-6*max|stencil data| plus slope * (offset bits lost in the float sum n/2+offset)",
    "weights: tolerance 1e-6 on sum and moments (float evaluation of the Lagrange basis; worst observed 1.5e-7)",
    "a third of the shift/polynomial cases are trains of 2-3 bunches with per-bunch displacement fields (y kick) / one field for all bunches (x kick)",
    "RotationMap (tests-only class) is exercised in the release variant only: its float->unsigned conversion of negative source coordinates is outside C17's program scope",
    "oracle: double-precision evaluation of the polynomial at the displaced position; never calls Inovesa code for expected values",
]


def run(ctx):
    ctx.assumptions = ASSUME
    ctx.rule = ("weights: float bit patterns of [0,1) (quick: every 64th + binade edges, thorough: all 2^30) x orders 1-4, each pattern distinct; "
                "shift: (grid size, order, axis, data flavour) with every fitting uniform displacement + per-row random ones; "
                "poly/rot: random polynomial + offset field, distinct by hash of (n, order, offsets); non-trivial = at least one cell compared")
    th = ctx.tier == "thorough"
    nblocks = 0x3F800000 // 65536  # 16256 blocks of 2^16 patterns
    core.run_harness(ctx, "c02", nblocks, args=["--mode", "weights", "--stride", 1 if th else 64])
    core.run_harness(ctx, "c02", 4000 if th else 160, args=["--mode", "shift"])
    core.run_harness(ctx, "c02", 40000 if th else 800, args=["--mode", "poly"])
    core.run_harness(ctx, "c02", 6000 if th else 240, args=["--mode", "rot"])
    # sanitizer pass over the KickMap classes (reaches index arithmetic the parser cannot express)
    core.run_harness(ctx, "c02", 400 if th else 40, variant="asan", args=["--mode", "shift"])
    core.run_harness(ctx, "c02", 2000 if th else 80, variant="asan", args=["--mode", "poly"])
    ctx.min_events = {"weight_sets_checked": 1000000, "shift_applications": 1000,
                      "poly_cells_compared": 10000, "rot_cells_compared": 1000,
                      "weights_checked_at_zero": 1, "shift_applications_multibunch": 200, "poly_applications_multibunch": 100}
