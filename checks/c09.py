"""C09 - normalisation restores each bunch's charge share; moments are the true moments."""
from vlib import core

ASSUME = [
    "'integrates to' uses the quadrature the code base defines (Simpson weights in both directions); shares are compared at 2*n*2^-24 relative (float accumulation over n terms), empty buckets exactly",
    "reported moments are compared (1) with the first/second moment of the bunch's own stored projection, computed by the oracle in double (plain sums), and (2) for single Gaussians with the analytic mean/width at 1e-3/2e-3 sigma (+32*n*2^-24*extent for float accumulation) (Gaussians at least 2.5 cells wide and 5.5 sigma inside the grid, so discretisation error is far below that)",
    "the generating constructor (start distribution of width 'zoom', at least 1.5 cells, up to wider than the grid) must hand out a grid whose bunches already integrate to their shares (same tolerance)",
    "half of the smooth cases ask for the position moments right after integrateAndNormalize(), before any projection is refreshed (the order of main()'s final record): they must be the moments of the stored projection normalised by that projection's own charge",
    "program part: RenormalizeCharge r in 1..8 with output cadences that are not multiples of r, wide start distributions that lose charge at the border, 1-3 buckets: every phase space saved at a step that is a multiple of r must integrate per bunch to its share at 2e-5 (unit = total of the first record)",
    "a quarter of the multi-bunch cases start from data whose total charge is already one but whose per-bunch shares differ from the filling pattern",
    "cells of equal size in q and p are the main class (the only one the program can produce); different cell sizes are a separately keyed class",
]


def run(ctx):
    ctx.assumptions = ASSUME
    ctx.rule = ("case = (grid 16..256 even/odd, extent, centre offset, width of the generated start distribution 0.3..3 (shares checked right after construction), 1-5 bunches with random shares incl. empty buckets, data flavour: gaussian / mixture / arbitrary non-negative); "
                "distinct by hash(n, nb, flavour, extent, first gaussian mean)")
    th = ctx.tier == "thorough"
    core.run_harness(ctx, "c09", 60000 if th else 1600)
    core.run_harness(ctx, "c09", 1600 if th else 96, variant="asan")
    ctx.min_events = {"shares_checked": 1000, "moments_checked": 1000, "gaussian_moments_checked": 300,
                      "copies_checked": 500, "prenormalised_cases": 100, "independence_checked": 500, "empty_buckets_checked": 50, "constructed_shares_checked": 1000, "moments_right_after_renormalisation_checked": 300}
    from checks import c09_prog
    c09_prog.run(ctx)
