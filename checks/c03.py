"""C03 - the bunch centroid rotates by 2*pi/steps per step and the orbit closes."""
import math
import os
import shutil
import struct

import numpy as np

from vlib import build, core, prog, physics

ASSUME = [
    "interpolation orders 2-4 (order 1 = nearest-cell transport cannot move a centroid by a fraction of a cell)",
    "tight oracle: exact product of the 2x2 kick-drift matrices (p += tan(a) q ; q -= a p) applied to the start centroid; tolerance 2e-5*(1+|c0|)*(1+0.02k) for the linear model (first moments are transported exactly by schemes of order >= 2; only rounding accumulates)",
    "statement oracle: distance to the exact rotation by k*a at most 2*a*|c0| + 2e-4 for every step of one period (first-order splitting error), including closure at k = steps",
    "sinusoidal model: small amplitude (|c0| <= 2 sigma, synchronous phase ~ 0), extra allowance max(2e-3, (k_RF*4.5 sigma)^2/6)*|c0|*(1+k*a) for the curvature of the sine over the region the charge occupies (API part: k_RF*sigma up to 0.1; program part: 2e-3)",
    "centroids are the oracle's own double-precision first moments (API part) / the stored /BunchPosition and /EnergyAverage (program part, whose consistency with the grid is C10's subject)",
    "start distributions are narrow Gaussians (API part: cut at 4 sigma) that stay inside the grid during the whole rotation; API part: from the step on at which more than 1e-7 of the |charge| lies within three cells of the border (numerical diffusion of low-order schemes) a case is no longer judged (the property is about distributions that stay inside the grid) and counted; program part: records after more than 2e-6 of the charge has been lost",
]


def write_start(path, n, qc, pc, pq, blobs, normalise=False):
    """craft a start file holding one phase-space record with displaced Gaussian blobs"""
    d = pq / (n - 1)
    q = (qc - pq / 2) + np.arange(n) * d
    p = (pc - pq / 2) + np.arange(n) * d
    g = np.zeros((n, n))
    for (mq, mp, sg, amp) in blobs:
        Q, Pp = np.meshgrid(q, p, indexing="ij")
        r2 = (Q - mq) ** 2 + (Pp - mp) ** 2
        g += amp * np.exp(-0.5 * r2 / (sg * sg))    # smooth (untruncated): Simpson-based stored moments equal plain moments
    if normalise:
        g /= g.sum() * d * d
    raw = path + ".raw"
    g.astype("<f4").tofile(raw)
    tool = build.build_tool("h5tool")
    r = core.run_cmd([tool, "mkps", path, "4", "1", "1", str(n), str(n), raw], timeout=60)
    os.unlink(raw)
    return r["rc"] == 0


def run_case(args):
    ctx, i, sdir, pool = args
    r = core.Rng("c03", ctx.seed, i)
    n = r.choice([64, 96, 97, 128, 129, 160] if ctx.tier == "thorough" else [64, 65, 96, 97, 128])       # even and odd meshes
    steps = int(round(r.loguniform(20, 1200 if ctx.tier == "thorough" else 400)))
    sinus = (i % 3 == 2)
    if i % 16 == 5:
        # scale: a mesh beyond 512 cells, few steps per period (each step is a million cells)
        n = r.choice([513, 640, 1030])
        steps = int(round(r.uniform(20, 40)))
    o = dict(GridSize=n, StepsPerTs=steps, rotations=1.0, outstep=1, DampingTime=0.0, VacuumGap=0,
             InterpolationPoints=r.choice([2, 3, 4]), RenormalizeCharge=r.choice([-1, 0]))
    if r.chance(0.6):
        o["PhaseSpaceShiftX"] = round(r.uniform(-3, 3), 2)
        o["PhaseSpaceShiftY"] = round(r.uniform(-3, 3), 2)
    if r.chance(0.4):
        o["SynchrotronFrequency"] = float(r.choice([6000, 9000, 20000]))
    elif r.chance(0.5):
        o["alpha0"] = r.choice([1e-3, 8e-3])
    if sinus:
        o["LinearRF"] = False
        o["BendingRadius"] = 200.0      # keeps the synchronous phase ~ 0 (the statement is about small amplitudes)
    P = physics.derive({k: v for k, v in o.items()})
    if i % 4 == 3:
        o["alpha1"] = float("%.3g" % (r.choice([0.125, -0.125]) * P["alpha0"]))     # an eighth of alpha0: second-order drift of 6e-5 of the first-order one at 1 sigma
    if i % 6 == 1:
        # the step size given per revolution (overrides StepsPerTs, which stays at an unrelated value): the configured angle is
        # 2 pi over the number of steps per synchrotron period that implies; the period is closed at the nearest whole step
        # (every other such case implies a number of steps per period that is not whole: 2 pi over *that* number is the angle per step)
        o["StepsPerRevolution"] = round(P["steps"] * (r.choice([1.0137, 0.9911, 1.0045]) if (i // 6) % 2 == 0 else 1.0) * P["fs"] / P["frev"], 9)
        o["StepsPerTs"] = int(r.choice([2 * steps, max(20, steps // 3), 1000 if abs(steps - 1000) > 300 else 250]))
        P = physics.derive({k: v for k, v in o.items()})
    if i % 4 == 2:
        # records every few steps only, with a run length that is not a multiple of the cadence: the final record is as much "after k steps" as any
        o["outstep"] = r.choice([7, 13, 30, 35])
    wd = os.path.join(sdir, "c%04d" % i)
    os.makedirs(wd, exist_ok=True)
    nblob = r.choice([1, 2])
    blobs = []
    dlt = P["delta"]
    for _ in range(nblob):
        # at least 2.6 cells wide: the stored moments use Simpson weights, whose aliasing error is e^{-2 pi^2 (sigma/2h)^2}
        sg = max(r.uniform(0.35, 0.5), 2.6 * dlt)
        radmax = 6 - (abs(o.get("PhaseSpaceShiftX", 0)) + abs(o.get("PhaseSpaceShiftY", 0))) * dlt / 1.0 - 3 * dlt - 5.5 * sg
        radmax = min(radmax, 1.0 if o["InterpolationPoints"] == 2 else 2.0)
        rad, ph = r.uniform(0.15, max(radmax, 0.2)), r.uniform(0, 2 * math.pi)
        blobs.append((rad * math.cos(ph), rad * math.sin(ph), sg, r.uniform(0.3, 1)))
    if not write_start(os.path.join(wd, "start.h5"), n, P["qc"], P["pc"], P["pq"], blobs):
        return dict(i=i, incon="could not craft start file")
    o["InitialDistFile"] = os.path.join(wd, "start.h5")
    o["output"] = "out.h5"
    prog.sprinkle(core.Rng("c03nuisance", ctx.seed, i), o, wd=wd)       # options that must not matter to the centroid
    xdg = pool.get()
    try:
        res = prog.run_inovesa("rel", o, wd, xdg, timeout=600)
    finally:
        pool.put(xdg)
    out = dict(i=i, opts={k: v for k, v in o.items() if k != "InitialDistFile"}, cmd=" ".join(res["argv"]), sinus=sinus)
    bad = prog.program_outcome_key(res)
    if bad or res["rc"] != 0 or not os.path.exists(os.path.join(wd, "out.h5")):
        out["incon"] = "run failed: %s %s" % (bad, res["err"][-200:])
        return out
    h = prog.H5(os.path.join(wd, "out.h5"))
    q = h["/BunchPosition/data"][:, 0].astype(float)
    p = h["/EnergyAverage/data"][:, 0].astype(float)
    t = np.rint(h["/Info/AxisValues_t"].astype(float) * P["steps"]).astype(int)
    pop = h["/BunchPopulation/data"][:, 0].astype(float)
    a = 2 * math.pi / P["steps"]
    af = struct.unpack("f", struct.pack("f", a))[0]
    tn = af if sinus else math.tan(af)     # sinusoidal model: small-amplitude kick is a*q, linear model: tan(a)*q
    c0 = (q[0], p[0])
    r0 = math.hypot(*c0)
    mq, mp = c0
    worst1 = worst2 = 0.0
    viol = []
    k = 0
    for rec in range(1, len(t)):
        while k < t[rec]:
            mp = mp + tn * mq
            mq = mq - af * mp
            k += 1
        if abs(pop[rec] / pop[0] - 1) > 1e-3:
            out["incon"] = "charge left the grid (generator)"
            break
        e1 = math.hypot(q[rec] - mq, p[rec] - mp)
        ang = math.atan2(c0[1], c0[0]) + k * a
        e2 = math.hypot(q[rec] - r0 * math.cos(ang), p[rec] - r0 * math.sin(ang))
        extra = 2e-3 * r0 * (1 + k * a) if sinus else 0.0
        tol1 = extra + 8e-5 * (1 + r0) * (1 + 0.02 * k)
        tol2 = 2 * a * r0 + 2e-4 + extra
        if abs(pop[rec] / pop[0] - 1) < 2e-6:
            worst1 = max(worst1, e1 / tol1)
        if abs(pop[rec] / pop[0] - 1) < 2e-6:
            worst2 = max(worst2, e2 / tol2)
        lossless = abs(pop[rec] / pop[0] - 1) < 2e-6
        if not lossless:
            out['lossy'] = out.get('lossy', 0) + 1
        if lossless and e1 > tol1:
            viol.append(("C03:prog:track:" + ("sinus" if sinus else "linear"), "recorded centre of charge leaves the exact kick-drift orbit",
                         dict(step=int(k), q=q[rec], p=p[rec], want_q=mq, want_p=mp, tol=tol1)))
            break
        if lossless and e2 > tol2:
            viol.append(("C03:prog:rotation:" + ("sinus" if sinus else "linear"), "recorded centre of charge deviates from the rotation by k*2pi/steps by more than the splitting error",
                         dict(step=int(k), q=q[rec], p=p[rec], bound=tol2, err=e2)))
            break
    out.update(viol=viol, worst1=worst1, worst2=worst2, records=len(t), closed=(k == P["laststep"] and not viol), c0=c0, per_rev="StepsPerRevolution" in o,
               fractional=abs(P["steps"] - round(P["steps"])) > 1e-3, sparse=o.get("outstep", 1) != 1)
    shutil.rmtree(wd, ignore_errors=True)
    return out


def run(ctx):
    from checks.c10 import XdgPool
    ctx.assumptions = ASSUME
    ctx.rule = ("API: (RF model linear/sinusoidal, single bunch or (a quarter) train of 2-3 bunches each with its own start and judged on its own, grid 48..256, order 2-4, steps per period 20..2000, grid shifts, 1-2 blobs with centroid radius <= 2 sigma at any phase) iterated over a full period, centroid checked after every step; "
                "program: the same through a crafted start file and --outstep 1, with alpha0 or SynchrotronFrequency; distinct by parameters and start centroid")
    th = ctx.tier == "thorough"
    core.run_harness(ctx, "c03", 1600 if th else 96)
    core.run_harness(ctx, "c03", 64 if th else 16, variant="asan")
    n = 240 if th else 18
    sdir = ctx.scratch()
    pool = XdgPool(sdir, core.NCPU)
    for res in core.pmap(run_case, [(ctx, i, sdir, pool) for i in range(n)]):
        if "incon" in res:
            ctx.inconcl("program case %d: %s" % (res["i"], res["incon"]))
            continue
        ctx.case("prog:%s" % sorted(res["opts"].items()))
        ctx.ev("program_runs")
        ctx.ev("program_records_checked", res["records"])
        if res["closed"]:
            ctx.ev("program_periods_closed")
        if res.get("per_rev"):
            ctx.ev("program_runs_with_steps_per_revolution")
        if res.get("fractional"):
            ctx.ev("program_runs_with_a_fractional_number_of_steps_per_period")
        if res.get("sparse"):
            ctx.ev("program_runs_recorded_every_few_steps")
        kind = "sinus" if res["sinus"] else "linear"
        ctx.residual("prog.centroid_vs_matrix_product_over_tol." + kind, res["worst1"], 1.0)
        ctx.residual("prog.centroid_vs_rotation_over_bound." + kind, res["worst2"], 1.0)
        for key, what, det in res["viol"]:
            ctx.violation(key, what, dict(det, cmd=res["cmd"], options=res["opts"]))
        ctx.sample(dict(options=res["opts"], start_centroid=res["c0"], records=res["records"]))
    ctx.min_events = {"steps_observed": 5000, "periods_closed": 40, "periods_closed_bunch>0": 10, "periods_of_1e5_steps_closed": 3, "program_runs": n // 2, "program_periods_closed": n // 3, "program_runs_with_steps_per_revolution": 2, "program_runs_with_a_fractional_number_of_steps_per_period": 1, "program_runs_recorded_every_few_steps": 2}
