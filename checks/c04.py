"""C04 - without impedance every start relaxes to the unit-width natural Gaussian."""
import math
import os
import shutil

import numpy as np

from vlib import core, prog, physics

ASSUME = [
    "the unbounded 'converges' is decided as bounded progress: after 12 variance-damping times the widths are within eps of 1 and change by < 1e-4 per synchrotron period over the last five periods",
    "eps (discretisation error of the grid, plus 0.25*a^2 for the O(a^2) distortion of the equilibrium by the kick-drift splitting) = 0.25*delta^2 + 5e-4 for 4-point interpolation with the 4-point derivative stencil and 0.8*delta^2 + 5e-4 for the other combinations of 3/4-point schemes; with the 2-point scheme the grid's numerical diffusion (~delta^2/12 per step) is comparable to the physical diffusion e1, so only stationarity and independence of the start are decided for it",
    "two different initial zooms must end within 1e-3 of each other",
    "S = sigma_z^2 + sigma_E^2 - 2 decays by exp(-e1*steps) per synchrotron period (+-5%), e1 = 2/(f_s*t_d*steps) from an independent derivation of f_s; measured where 0.05 < |S - S_final| < 1 (wider distributions are still being clipped by the grid), from the second period on (a start wider than the grid allows is clipped during the first period); initial zoom factors 0.5..1.7 (0.5..1.2 where nothing damps)",
    "damping only: both widths decrease strictly from one period to the next (run stopped before the bunch is narrower than four cells); diffusion only: both increase strictly; neither (FPType 0 or zero damping time): sigma_z^2+sigma_E^2 stays within 1e-3 relative and each width within the first-order splitting error a*sigma, over at most 1600 steps",
    "per-step decrements mostly up to half the explicit scheme's stability limit (e1 <= 0.25*delta^2), one group in six at 0.3-0.45*delta^2 (the stable range ends at 0.5)",
]


def eps_for(order, deriv, delta, a):
    # discretisation of the grid + O(a^2) distortion of the equilibrium by the kick-drift splitting
    return (0.25 if (order == 4 and deriv == 4) else 0.8) * delta * delta + 5e-4 + 0.25 * a * a


def gen(seed, i, tier):
    r = core.Rng("c04", seed, i)
    n = r.choice([64, 65, 96, 128, 129, 192, 256] if tier == "thorough" else [64, 65, 96, 97, 128])      # even and odd meshes
    steps = r.choice([50, 100, 200, 500] if tier == "thorough" else [50, 100, 200])
    d = 12.0 / (n - 1)
    e1 = min(r.loguniform(1.2e-3, 8e-3), 0.25 * d * d)
    if i % 6 == 1:
        e1 = r.uniform(0.3, 0.45) * d * d        # upper part of the explicit scheme's stable range (e1/delta^2 < 0.5)
    kind = ["relax", "relax", "relax", "damp", "diff", "none"][i % 6]
    order = r.choice([4, 4, 3, 2]) if kind == "relax" else r.choice([4, 3])
    o = dict(GridSize=n, StepsPerTs=steps, VacuumGap=0, InterpolationPoints=order, derivation=r.choice([3, 4]), outstep=steps)
    if r.chance(0.3):
        o["PhaseSpaceShiftY"] = round(r.uniform(-2, 2), 2)
    if i % 3 == 0:
        o["FPTrack"] = r.choice([0, 1, 2])       # model for tracked particles: without a tracking file it must not matter to the grid
    if i % 4 == 2:
        # "every start relaxes" holds for every bunch of a train: two bunches of different charge, sometimes with an empty bucket between
        a1 = round(r.loguniform(2e-4, 2e-3), 7)
        o["BunchCurrent"] = [a1, round(a1 * r.choice([0.5, 1.0, 3.0]), 7)] if r.chance(0.6) else [a1, 0.0, round(a1 * r.choice([0.5, 2.0]), 7)]
        o["GridSize"] = min(o["GridSize"], 96)
    if i % 8 in (1, 5):
        o["SynchrotronFrequency"] = float(r.choice([8000, 15000, 30000]))      # the focusing given through f_s (alone, and together with the sinusoidal model)
    if i % 8 in (2, 5):
        o["LinearRF"] = False                    # sinusoidal RF (k_RF*sigma of a few 1e-3: the same well to that accuracy), every other train and some single bunches
    prog.sprinkle(core.Rng("c04nuisance", seed, i), o)          # options that must not matter to the widths
    zooms = [round(r.uniform(0.5, 0.9), 2), round(r.uniform(1.15, 1.7), 2)]
    if kind in ('none', 'diff'):
        zooms = [round(r.uniform(0.5, 0.9), 2), round(r.uniform(0.9, 1.2 if kind == 'none' else 1.0), 2)]
    return kind, o, e1, zooms


def run_case(args):
    ctx, i, sdir, pool = args
    kind, o, e1, zooms = gen(ctx.seed, i, ctx.tier)
    P0 = physics.derive(o)
    steps = P0["steps"]
    if kind in ("damp", "diff"):
        e1 = min(e1, 0.4 / steps)          # a few per cent per period: the widths stay resolvable over the whole run
    td = 2.0 / (P0["fs"] * e1 * steps)
    out = dict(i=i, kind=kind, viol=[], res={}, opts=dict(o, e1=e1), runs=0, incon=[])
    wd = os.path.join(sdir, "c%04d" % i)
    os.makedirs(wd, exist_ok=True)
    xdg = pool.get()
    try:
        def go(extra, name):
            oo = dict(o); oo.update(extra); oo["output"] = name
            res = prog.run_inovesa("rel", oo, wd, xdg, timeout=1800)
            bad = prog.program_outcome_key(res)
            if bad or res["rc"] != 0 or not os.path.exists(os.path.join(wd, name)):
                out["incon"].append("run failed: %s %s" % (bad, res["err"][-200:]))
                return None, res
            h = prog.H5(os.path.join(wd, name))
            out["runs"] += 1
            BL, ES = h["/BunchLength/data"].astype(float), h["/EnergySpread/data"].astype(float)
            if BL.ndim == 1:
                BL, ES = BL[:, None], ES[:, None]
            return (BL, ES), res

        order = o["InterpolationPoints"]
        a = 2 * math.pi / steps
        if kind == "relax":
            T = int(math.ceil(24.0 / (e1 * steps))) + 5          # 12 damping times of the variance + 5 periods of watching
            finals = []
            for z in zooms:
                ser, res = go(dict(DampingTime=td, rotations=float(T), InitialDistZoom=z), "z%s.h5" % z)
                if ser is None:
                    continue
                BL, ES = ser
                finals.append((BL[-1].copy(), ES[-1].copy()))
                for bn in range(BL.shape[1]):
                    bl, es = BL[:, bn], ES[:, bn]
                    bk = ':bunch>0' if bn else ''
                    out['bunch_series'] = out.get('bunch_series', 0) + (1 if bn else 0)
                    w = dict(options=out["opts"], zoom=z, bunch=bn, cmd=" ".join(res["argv"]), final_length=bl[-1], final_spread=es[-1])
                    if order >= 3:
                        eps = eps_for(order, o["derivation"], P0["delta"], a)
                        for nm, v in (("length", bl[-1]), ("spread", es[-1])):
                            out["res"]["final_width_err_over_eps.order%d" % order] = max(out["res"].get("final_width_err_over_eps.order%d" % order, 0), abs(v - 1) / eps)
                            if abs(v - 1) > eps:
                                out["viol"].append(("C04:limit:" + nm + ":order%d" % order + bk, "bunch %s does not converge to 1 within the discretisation error" % nm, dict(w, eps=eps)))
                    drift = max(np.max(np.abs(np.diff(bl[-6:]))), np.max(np.abs(np.diff(es[-6:]))))
                    out["res"]["late_change_per_period"] = max(out["res"].get("late_change_per_period", 0), drift / 1e-4)
                    if drift > 1e-4:
                        out["viol"].append(("C04:not_stationary" + bk, "widths still change by more than 1e-4 per period after 12 damping times", dict(w, change=float(drift))))
                    S = bl ** 2 + es ** 2
                    S = S - S[-1]        # decay towards the grid's own stationary value
                    want = math.exp(-e1 * steps)
                    ratios = [S[k + 1] / S[k] for k in range(1, len(S) - 1) if 0.05 < abs(S[k]) < 1.0 and 0.05 < abs(S[k + 1]) < 1.0]
                    if ratios and order >= 3:
                        dev = max(abs(math.log(x / want)) / (e1 * steps) for x in ratios if x > 0) if all(x > 0 for x in ratios) else 9.0
                        out["res"]["decay_rate_rel_dev"] = max(out["res"].get("decay_rate_rel_dev", 0), dev / 0.05)
                        out["rates"] = out.get("rates", 0) + len(ratios)
                        if dev > 0.05:
                            out["viol"].append(("C04:decay_rate" + bk, "relaxation rate differs from 2/t_d by more than 5%", dict(w, measured=ratios[:4], expected=want, e1=e1)))
            if len(finals) == 2:
                diff = float(max(np.max(np.abs(finals[0][0] - finals[1][0])), np.max(np.abs(finals[0][1] - finals[1][1]))))
                out["res"]["limit_depends_on_start"] = diff / 1e-3
                out["pairs"] = 1
                if diff > 1e-3:
                    out["viol"].append(("C04:limit_depends_on_start", "two initial zoom factors relax to different widths", dict(options=out["opts"], zooms=zooms, finals=[[list(map(float, x)) for x in f] for f in finals])))
        else:
            fpt = dict(damp=1, diff=2, none=0)[kind]
            z0 = zooms[i % 2]
            nper = 5.0 if kind == 'diff' else 8.0
            if kind == 'damp':
                # stop before the distribution becomes narrower than four cells (no width is defined below the resolution)
                nper = max(2.0, min(8.0, math.floor(math.log(z0 / (4 * P0["delta"])) / (e1 * steps / 2))))
            if kind == 'none':
                nper = max(2.0, min(8.0, math.floor(1600.0 / steps)))       # interpolation error accumulates with the number of steps
            extra = dict(DampingTime=td, rotations=nper, InitialDistZoom=z0, FPType=fpt)
            if kind == "none" and i % 12 >= 6:
                extra = dict(DampingTime=0.0, rotations=nper, InitialDistZoom=z0)
            ser, res = go(extra, "m.h5")
            if ser is not None:
                BL, ES = ser
                out["mono"] = 1
                for bn in range(BL.shape[1]):
                    bl, es = BL[:, bn], ES[:, bn]
                    bk = ':bunch>0' if bn else ''
                    out['bunch_series'] = out.get('bunch_series', 0) + (1 if bn else 0)
                    w = dict(options=dict(out["opts"], **extra), bunch=bn, cmd=" ".join(res["argv"]), lengths=[float(x) for x in bl], spreads=[float(x) for x in es])
                    if kind == "damp" and not (np.all(np.diff(bl) < 0) and np.all(np.diff(es) < 0)):
                        out["viol"].append(("C04:damping_only_not_shrinking" + bk, "with damping only the widths do not shrink monotonically", w))
                    if kind == "diff" and not (np.all(np.diff(bl) > 0) and np.all(np.diff(es) > 0)):
                        out["viol"].append(("C04:diffusion_only_not_growing" + bk, "with diffusion only the widths do not grow monotonically", w))
                    if kind == "none":
                        tot = bl ** 2 + es ** 2
                        dS = float(np.max(np.abs(tot - tot[0])) / tot[0])
                        dw = float(max(np.max(np.abs(bl - bl[0])) / bl[0], np.max(np.abs(es - es[0])) / es[0]))
                        out["res"]["no_fp_sum_of_variances_change"] = dS / 1e-3
                        out["res"]["no_fp_width_change_over_splitting_error"] = dw / a
                        if dS > 1e-3 or dw > a:
                            out["viol"].append(("C04:no_fp_does_not_stay_put" + bk, "with neither damping nor diffusion the widths do not stay put", dict(w, rel_change_sum=dS, rel_change_width=dw, a=a)))
    finally:
        pool.put(xdg)
        shutil.rmtree(wd, ignore_errors=True)
    return out


def run(ctx):
    from checks.c10 import XdgPool
    ctx.assumptions = ASSUME
    ctx.rule = ("API: one Fokker-Planck application on Gaussian rows (FP type 0-3, stencil 3/4, grid 64..256, decrement, width, mean); "
                "program: relaxation groups (two zooms each; a quarter of all cases are two-bunch trains, every bunch judged on its own; grid 64..256, steps 50..500, e1 1.2e-3..0.25 delta^2, stencil, order 2-4) over 12 damping times + monotonicity runs for damping-only / diffusion-only / none; distinct by parameters")
    th = ctx.tier == "thorough"
    core.run_harness(ctx, "c04", 8000 if th else 800)
    core.run_harness(ctx, "c04", 400 if th else 48, variant="asan")
    n = 360 if th else 24
    sdir = ctx.scratch()
    pool = XdgPool(sdir, core.NCPU)
    for res in core.pmap(run_case, [(ctx, i, sdir, pool) for i in range(n)]):
        for x in res["incon"]:
            ctx.inconcl("case %d: %s" % (res["i"], x))
        if not res["runs"]:
            continue
        ctx.case("prog:%s:%s" % (res["kind"], sorted(res["opts"].items())))
        ctx.ev("program_runs", res["runs"])
        ctx.ev("relaxation_pairs", res.get("pairs", 0))
        ctx.ev("decay_ratios_measured", res.get("rates", 0))
        ctx.ev("monotonicity_runs", res.get("mono", 0))
        ctx.ev("series_of_second_bunches_judged", res.get("bunch_series", 0))
        for k, v in res["res"].items():
            ctx.residual(k, v, 1.0)
        for key, what, det in res["viol"]:
            ctx.violation(key, what, det)
        ctx.sample(dict(kind=res["kind"], options=res["opts"], runs=res["runs"]))
    ctx.min_events = {"fp_applications": 500, "program_runs": n, "relaxation_pairs": n // 3, "decay_ratios_measured": n // 2, "monotonicity_runs": n // 3, "series_of_second_bunches_judged": n // 6}
