"""C19 program part: /RFKicks/data has one row per executed step; rows follow the configured modulation."""
import math
import os
import shutil

import numpy as np

from vlib import core, prog, physics


def run(ctx):
    sdir = ctx.scratch()
    n = 80 if ctx.tier == "thorough" else 8

    def one(i):
        r = core.Rng("c19prog", ctx.seed, i)
        d = os.path.join(sdir, "q%03d" % i)
        os.makedirs(d, exist_ok=True)
        steps = r.choice([40, 64, 100, 150])
        T = r.choice([0.3, 0.55, 0.77, 1.0, 1.31])
        o = dict(GridSize=r.choice([32, 48]), StepsPerTs=steps, rotations=T, outstep=r.choice([1, 3, 7, 11, 0, 1000]), SavePhaseSpace=0,
                 LinearRF=(i % 2 == 0), BunchCurrent=[round(r.loguniform(1e-4, 1e-3), 7)], output="o.h5")
        amp = r.choice([0.05, 0.5, 2.0])
        P0 = physics.derive(o)
        freq = r.choice([0.3, 1.0, 2.7]) * P0["fs"]
        noise = (i % 4 == 3)
        o["RFPhaseModAmplitude"] = amp
        o["RFPhaseModFrequency"] = freq
        if i % 4 == 1:
            # the time step given per revolution (overrides StepsPerTs, which stays at another value): the modulation advances by f*dt of *that* step
            o["StepsPerRevolution"] = round(steps * 1.37 * P0["fs"] / P0["frev"], 6)
            o["StepsPerTs"] = r.choice([2 * steps, max(20, steps // 3)])
            o["_per_rev"] = True
        if noise:
            o["RFPhaseSpread"] = 0.01
            o["RFAmplitudeSpread"] = 1e-4
        if r.chance(0.3):
            o["VacuumGap"] = 0
        per_rev = bool(o.pop("_per_rev", False))
        # either of the two documented endings of a results file
        oname = "o.hdf5" if i % 3 == 1 else "o.h5"
        o["output"] = oname
        res = prog.run_inovesa("rel", o, d, os.path.join(d, "xdg"), timeout=600)
        out = dict(i=i, per_rev=per_rev, opts=o, cmd=" ".join(res["argv"]), viol=[], rows=0)
        if prog.program_outcome_key(res) or res["rc"] != 0:
            out["incon"] = "run failed: %s" % res["err"][-200:]
            return out
        h = prog.H5(os.path.join(d, oname))
        P = physics.derive({k: v for k, v in o.items() if k != "output"})
        k = h["/RFKicks/data"].astype(float)
        last = P["laststep"]
        out["rows"] = int(k.shape[0])
        w = dict(options=o, cmd=out["cmd"], rows=int(k.shape[0]), steps_executed=last)
        if k.shape[0] != last:
            out["viol"].append(("C19:prog:record_count", "/RFKicks/data does not have exactly one row per executed step", w))
        elif not noise:
            A = amp / 360.0 * 2 * math.pi
            sync = 0.0 if o["LinearRF"] else math.asin(P["V0"] / P["Veff"])
            kk = np.arange(last)
            ang = 2 * math.pi * freq * P["dt"] * kk
            want = sync + A * np.sin(ang)
            tol = 4e-6 * (abs(sync) + 1) + A * (4e-6 + 4e-7 * np.abs(ang))
            err = np.abs(k[:, 0] - want)
            out["worst"] = float(np.max(err / tol))
            if np.any(err > tol) or np.any(k[:, 1] != 1.0):
                j = int(np.argmax(err / tol))
                out["viol"].append(("C19:prog:modulation_waveform", "recorded RF phase is not phi_s + A*sin(2 pi f dt k) with the configured amplitude and frequency",
                                    dict(w, step=j, got=float(k[j, 0]), want=float(want[j]), amplitude_column=float(k[j, 1]))))
        shutil.rmtree(d, ignore_errors=True)
        return out

    for res in core.pmap(one, list(range(n))):
        if "incon" in res:
            ctx.inconcl("program case %d: %s" % (res["i"], res["incon"]))
            continue
        ctx.case("prog:%s" % sorted((k, str(v)) for k, v in res["opts"].items()))
        ctx.ev("program_runs")
        if res.get("per_rev"):
            ctx.ev("program_runs_with_steps_per_revolution")
        ctx.ev("program_rfkick_rows", res["rows"])
        if "worst" in res:
            ctx.residual("prog.modulation_err_over_tol", res["worst"], 1.0)
        for key, what, wd in res["viol"]:
            ctx.violation(key, what, wd)
    ctx.min_events["program_runs"] = max(2, n // 2)
    ctx.min_events["program_runs_with_steps_per_revolution"] = 1
