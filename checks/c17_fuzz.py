"""C17 fuzz part: coverage-guided in-process fuzzing (libFuzzer) of the three text input readers and of the code that consumes
what they return, in a clang ASan+UBSan build of /repo's working tree (variant 'fuzz').  The oracle is the sanitizer runtime; a
report, a signal death or a libFuzzer timeout is routed through the same violation keys as the program runs of C17.
Bounded by the number of executions per worker (-runs), never by time; seeds derive from VERIF_SEED."""
import base64
import glob
import os
import re
import shutil

from vlib import build, core, prog

TARGETS = ("imp", "txt", "cfg")


def _seed_corpus(ctx, d):
    r = core.Rng("c17fuzzseed", ctx.seed)
    c = {t: os.path.join(d, "seed-" + t) for t in TARGETS}
    for p in c.values():
        os.makedirs(p, exist_ok=True)

    def w(t, name, body, p0=0, p1=0):
        with open(os.path.join(c[t], name), "wb") as fh:
            fh.write(bytes([p0, p1]) + body)
    for k in range(6):
        n = [3, 17, 33, 64, 129, 300][k]
        lines = b"".join(b"%d %g %g\n" % (i, r.uniform(0, 10), r.uniform(-10, 10)) for i in range(n))
        w("imp", "valid%d" % k, lines, k, k)
    w("imp", "empty", b"", 1, 0)
    w("imp", "dup", b"0 1 1\n0 2 2\n1 3 3\n1 4 4\n5 1e3 -1e3\n", 2, 3)
    w("imp", "tokens", b"0 nan inf\n1 -inf 1e999\n2 0x10 1,5\n3 1e-400 .5\n18446744073709551615 1 1\n-1 2 2\n", 3, 5)
    for k in range(4):
        pts = b"".join(b"%.4f %.4f\n" % (r.uniform(-3, 3), r.uniform(-3, 3)) for _ in range([1, 10, 200, 50][k]))
        w("txt", "valid%d" % k, pts, k, k)
    w("txt", "edge", b"6 6\n-6 -6\n5.999 -5.999\n3.5 3.5\n-3.5 3.5\n0 0\n1e9 -1e9\nnan 1\n1 inf\n1e39 2\n", 4, 1)
    # coordinates exactly on cell boundaries of the grids the target uses (4, 5, 8, 16, 17, 32 cells; half width 6 and 3.5)
    import struct
    for gi, g in enumerate([4, 5, 8, 16, 17, 32]):
        for ei, ext in enumerate([3.5, 6.0]):
            body = b""
            for cell in (-1.0, -0.5, 0.0, 0.5, g - 1.0, g - 0.5, g, g + 0.5):
                q = struct.unpack("f", struct.pack("f", ext * (cell / g - 0.5)))[0]
                body += b"%.9g 0\n0 %.9g\n%.9g %.9g\n" % (q, q, q, q)
            w("txt", "celledge_%d_%d" % (g, ei), body, gi, ei)
    w("txt", "empty", b"", 0, 0)
    w("txt", "nolf", b"0.1 0.2 0.3", 5, 0)
    # a configuration file as the program writes it itself, plus hand-made ones
    sd = os.path.join(d, "cfgrun")
    os.makedirs(sd, exist_ok=True)
    res = prog.run_inovesa("rel", dict(GridSize=16, StepsPerTs=20, rotations=0.1, output="o.h5", BunchCurrent=[1e-3, 0.0, 2e-3]), sd, os.path.join(sd, "xdg"), timeout=120)
    try:
        with open(os.path.join(sd, "o.cfg"), "rb") as fh:
            w("cfg", "saved", fh.read())
    except OSError:
        pass
    w("cfg", "hand", b"# comment\nGridSize = 32\nsteps=100\nRFVoltage=1e6\nSyncFreq=8e3\nBunchCurrent=1e-3\nBunchCurrent=2e-3\nLinearRF=false\nverbose=true\n")
    w("cfg", "bad", b"GridSize=abc\nNoSuchOption=1\n[section]\nx=1\nalpha0=\n=5\nrotations=1e999\nGridSize=-5\n")
    shutil.rmtree(sd, ignore_errors=True)
    return c


def run(ctx):
    th = ctx.tier == "thorough"
    plan = dict(imp=(16, 40000) if th else (6, 2500),
                txt=(16, 150000) if th else (5, 8000),
                cfg=(16, 150000) if th else (5, 8000))
    try:
        exe = build.build_harness("fuzz", "fuzz17")
    except RuntimeError as ex:
        ctx.harness_errors.append("fuzz harness does not build: %s" % str(ex)[-300:])
        return
    sdir = os.path.join(ctx.scratch(), "fuzz")
    os.makedirs(sdir, exist_ok=True)
    seeds = _seed_corpus(ctx, sdir)
    jobs = []
    for t in TARGETS:
        nw, runs = plan[t]
        for k in range(nw):
            jobs.append((t, k, runs))

    def one(job):
        t, k, runs = job
        wd = os.path.join(sdir, "%s-%02d" % (t, k))
        corpus = os.path.join(wd, "corpus")
        shutil.copytree(seeds[t], corpus)
        env = dict(core.SAN_ENV)
        env.update(INOVESA_FUZZ_TARGET=t, XDG_DATA_HOME=os.path.join(wd, "xdg"), HOME=wd)
        sd = core.rng_u64("c17fuzz", ctx.seed, t, k) % (2 ** 31 - 2) + 1
        cmd = [exe, "-runs=%d" % runs, "-seed=%d" % sd, "-max_len=%d" % (4096 if t != "txt" else 2048), "-timeout=60", "-rss_limit_mb=6000",
               "-print_final_stats=1", "-artifact_prefix=" + wd + "/", "-len_control=20", corpus]
        r = core.run_cmd(cmd, cwd=wd, env=env, timeout=7200)
        r["job"] = job
        r["cmd"] = cmd
        r["wd"] = wd
        return r

    for r in core.pmap(one, jobs):
        t, k, runs = r["job"]
        err = r["err"]
        m = re.search(r"stat::number_of_executed_units:\s+(\d+)", err)
        execd = int(m.group(1)) if m else 0
        fs = re.search(r"FUZZSTAT target=\d+ executed=(\d+) reader_returned_data=(\d+) consumed=(\d+)", err)
        covs = re.findall(r"cov: (\d+) ft: (\d+) corp: (\d+)", err)
        ctx.ev("fuzz.%s.workers" % t)
        if fs:
            execd = max(execd, int(fs.group(1)))
            ctx.ev("fuzz.%s.inputs_with_parsed_data" % t, int(fs.group(2)))
            ctx.ev("fuzz.%s.inputs_consumed_downstream" % t, int(fs.group(3)))
        ctx.ev("fuzz.%s.executions" % t, execd)
        ctx.ev("fuzz.executions", execd)
        if covs:
            cov, ft, corp = (int(x) for x in covs[-1])
            ctx.extra.setdefault("fuzz_edges_covered", {})
            ctx.extra["fuzz_edges_covered"][t] = max(ctx.extra["fuzz_edges_covered"].get(t, 0), cov)
            ctx.ev("fuzz.%s.corpus_units_kept" % t, corp)
        ctx.case("fuzz:%s:%d" % (t, k), n=execd)
        arts = sorted(glob.glob(os.path.join(r["wd"], "crash-*")) + glob.glob(os.path.join(r["wd"], "timeout-*")) +
                      glob.glob(os.path.join(r["wd"], "oom-*")) + glob.glob(os.path.join(r["wd"], "leak-*")))
        wit = None
        if arts:
            try:
                with open(arts[0], "rb") as fh:
                    wit = base64.b64encode(fh.read()[:8192]).decode()
            except OSError:
                pass
        if r["hang"]:
            ctx.inconcl("fuzz worker %s/%d did not finish within the wall-clock watchdog" % (t, k))
            continue
        if r["rc"] == 0 and execd >= runs:
            continue
        if "libFuzzer: out-of-memory" in err or "libFuzzer: timeout" in err:
            kind = "oom" if "out-of-memory" in err else "hang"
            if kind == "oom":
                ctx.inconcl("fuzz worker %s/%d stopped by libFuzzer's memory limit after %d executions" % (t, k, execd))
            else:
                ctx.violation("hang:fuzz:%s" % t, "one input kept the %s reader busy for more than 60 s (libFuzzer timeout)" % t,
                              dict(cmd=" ".join(r["cmd"]), target=t, input_b64=wit))
            continue
        san = core.classify_sanitizer(err)
        if san:
            ctx.violation(san[0], san[1] + " [fuzz target %s]" % t, dict(cmd=" ".join(r["cmd"]), target=t, input_b64=wit, report=err[-3000:]))
        elif r["rc"] is not None and r["rc"] < 0 or "libFuzzer: deadly signal" in err:
            sig = -r["rc"] if (r["rc"] or 0) < 0 else 6
            ctx.violation("signal:%d:fuzz:%s" % (sig, t), "fuzz target %s died of a signal (uncaught exception or crash)" % t,
                          dict(cmd=" ".join(r["cmd"]), target=t, input_b64=wit, stderr=err[-3000:]))
        else:
            ctx.harness_errors.append("fuzz worker %s/%d: rc=%s after %d of %d executions: %s" % (t, k, r["rc"], execd, runs, err[-300:].replace("\n", " | ")))
    for t in TARGETS:
        nw, runs = plan[t]
        ctx.min_events["fuzz.%s.executions" % t] = nw * runs * 3 // 4
        ctx.min_events["fuzz.%s.inputs_consumed_downstream" % t] = nw * runs // 50
    ctx.assumptions.append("fuzz part: libFuzzer (coverage-guided, clang ASan+UBSan build with edge instrumentation of the whole repository code) feeds arbitrary bytes as impedance file "
                           "(-> makeImpedance as main calls it, alone or added to models, -> wake field, wake potential, CSR spectrum), as text start distribution (-> makePSFromTXT -> projections, moments) "
                           "and as configuration file (-> ProgramOptions::parse -> getters, save); exceptions are refusals, not violations; bounded by executions per worker")
