"""C15 - tracked particles follow the flow of the distribution and never leave the grid."""
import os
import shutil

import numpy as np

from vlib import core, prog, physics

ASSUME = [
    "follow: a Gaussian blob (sigma 1.5 cells) is centred on the particle; after apply()/applyTo() the blob centroid and the particle must agree within 0.001 cell plus the oracle's own allowance |blob-weighted mean displacement - displacement interpolated at the particle| (curvature of the field over the blob); smooth fields and the real RF/drift/wake maps, interior particles",
    "follow under a dynamic RF map: phase modulation (kick shift up to n/16 cells, 0.02-0.3 periods per step) and/or phase/amplitude noise; in each of 12 consecutive steps a blob is put on a particle, apply() then applyTo(): centroid and particle agree within 0.001 cell + 2.25 x the largest second difference of the kick table; cases whose kick changes by more than 0.01 cell between steps are counted and required",
    "inside the grid: every coordinate finite and in [0, n-1] after every applyTo, for legal start positions (what PhaseSpace::x()/y() can return) incl. the exact edges",
    "ensemble: 20000 particles from the unit Gaussian under RF kick + drift + stochastic Fokker-Planck for five damping times; mean within 6/sqrt(N) sigma of the zero bins and width within 6/sqrt(2N) + e1 + a/2 of 1 at every snapshot (statistics, discretisation of the stochastic process, O(a) tilt of the kick-drift invariant ellipse)",
    "every other ensemble runs under the stochastic Fokker-Planck model alone on a 32-64 cell grid (zero-energy bin with any fractional part): same criteria, so an offset of the damping centre of half a cell (0.1-0.19 sigma) is far outside 6/sqrt(N) = 0.042 sigma",
    "program, follow: linear RF, no wake, FPType 0, FPTrack 0, RF phase modulated by 1-2.5 degrees at 2-3.2 f_s, one particle started at (0,0): all steps are affine, so the particle (stored as the grid point below it, + half a cell) stays within 1.5 cells of /BunchPosition, /EnergyAverage in every record while the centroid swings by at least 8 cells",
    "program complement: tracking files with edge particles in the ASan/UBSan build with --outstep 1: no sanitizer report, all stored coordinates finite and inside the axes",
]


def prog_part(ctx):
    sdir = ctx.scratch()
    n = 48 if ctx.tier == "thorough" else 8

    def one(i):
        r = core.Rng("c15prog", ctx.seed, i)
        d = os.path.join(sdir, "p%03d" % i)
        os.makedirs(d, exist_ok=True)
        g = r.choice([32, 48, 64])
        o = dict(GridSize=g, StepsPerTs=r.choice([20, 40, 100]), rotations=1.0, outstep=1, FPTrack=i % 4, tracking="trk.txt", output="o.h5",
                 BunchCurrent=[round(r.loguniform(1e-4, 1e-3), 7)], DampingTime=r.choice([-1.0, 1e-3, 2e-4]))
        if r.chance(0.5):
            o["PhaseSpaceShiftY"] = round(r.uniform(-3, 3), 2)
        P = physics.derive(o)
        with open(os.path.join(d, "trk.txt"), "w") as fh:
            lo, hi = P["qc"] - 6, P["qc"] + 6
            plo, phi = P["pc"] - 6, P["pc"] + 6
            pts = [(lo, plo), (hi, phi), (lo, phi), (hi, plo), (lo - 1, 0), (0, phi + 2), (hi, 0), (0, plo), (0, 0)]
            for k in range(12):
                pts.append((r.uniform(lo, hi), r.uniform(plo, phi)))
            for q, p in pts:
                fh.write("%.5f %.5f\n" % (q, p))
        res = prog.run_inovesa("asan", o, d, os.path.join(d, "xdg"), timeout=900)
        out = dict(i=i, opts=o, cmd=" ".join(res["argv"]))
        bad = prog.program_outcome_key(res)
        if bad:
            out["viol"] = ("C15:prog:" + bad[0], "tracking run fails under the sanitizer build: " + bad[1], res["err"][-1500:])
            return out
        if res["rc"] != 0 or not os.path.exists(os.path.join(d, "o.h5")):
            out["incon"] = "no output: " + res["err"][-200:]
            return out
        h = prog.H5(os.path.join(d, "o.h5"))
        pr = h["/Particles/data"].astype(float)
        z, e = h["/Info/AxisValues_z"].astype(float), h["/Info/AxisValues_E"].astype(float)
        out["coords"] = int(pr.size)
        ok = np.all(np.isfinite(pr)) and pr[..., 0].min() >= z.min() - 1e-6 and pr[..., 0].max() <= z.max() + 1e-6 and pr[..., 1].min() >= e.min() - 1e-6 and pr[..., 1].max() <= e.max() + 1e-6
        if not ok:
            out["viol"] = ("C15:prog:coordinates_outside_axes", "stored particle coordinates are not finite / not inside the grid axes", "")
        return out

    for res in core.pmap(one, list(range(n)), jobs=8):
        if "incon" in res:
            ctx.inconcl("program case %d: %s" % (res["i"], res["incon"]))
            continue
        ctx.case("prog:%s" % sorted((k, str(v)) for k, v in res["opts"].items()))
        ctx.ev("tracking_runs_under_sanitizer")
        ctx.ev("stored_coordinates_checked", res.get("coords", 0))
        if "viol" in res:
            ctx.violation(res["viol"][0], res["viol"][1], dict(options=res["opts"], cmd=res["cmd"], report=res["viol"][2]))


def prog_follow(ctx):
    """tracking together with a modulated RF phase, through the program: with linear RF, no wake and no Fokker-Planck term every
    step is an affine map, so a particle started on the centroid of the (centred) bunch must stay on the recorded centroid"""
    sdir = ctx.scratch()
    n = 24 if ctx.tier == "thorough" else 4

    def one(i):
        r = core.Rng("c15follow", ctx.seed, i)
        d = os.path.join(sdir, "f%03d" % i)
        os.makedirs(d, exist_ok=True)
        g = r.choice([128, 160, 192, 256])
        o = dict(GridSize=g, StepsPerTs=r.choice([40, 60, 80]), rotations=r.choice([2.0, 3.0]), outstep=1, VacuumGap=0, FPType=0, FPTrack=0, LinearRF=True,
                 tracking="trk.txt", output="o.h5", SavePhaseSpace=0)
        P = physics.derive(o)
        o["RFPhaseModAmplitude"] = round(r.uniform(1.0, 2.5), 3)
        o["RFPhaseModFrequency"] = round(P["fs"] * r.uniform(2.0, 3.2), 1)
        with open(os.path.join(d, "trk.txt"), "w") as fh:
            fh.write("0 0\n")
        res = prog.run_inovesa("rel", o, d, os.path.join(d, "xdg"), timeout=900)
        out = dict(i=i, opts=o, cmd=" ".join(res["argv"]))
        if prog.program_outcome_key(res) or res["rc"] != 0 or not os.path.exists(os.path.join(d, "o.h5")):
            out["incon"] = "run failed: " + res["err"][-200:]
            return out
        h = prog.H5(os.path.join(d, "o.h5"))
        pr = h["/Particles/data"].astype(float)[:, 0, :]
        z, e = h["/Info/AxisValues_z"].astype(float), h["/Info/AxisValues_E"].astype(float)
        dz, de = z[1] - z[0], e[1] - e[0]
        cq, cp = h["/BunchPosition/data"].astype(float)[:, 0], h["/EnergyAverage/data"].astype(float)[:, 0]
        m = min(len(pr), len(cq), len(cp))
        # the stored particle coordinate is the grid point below its position: add half a cell
        dev = np.maximum(np.abs(pr[:m, 0] + 0.5 * dz - cq[:m]) / dz, np.abs(pr[:m, 1] + 0.5 * de - cp[:m]) / de)
        swing = float(max(np.max(np.abs(cq[:m] - cq[0])) / dz, np.max(np.abs(cp[:m] - cp[0])) / de))
        out.update(records=int(m), swing=swing, worst=float(np.max(dev)), at=int(np.argmax(dev)))
        shutil.rmtree(d, ignore_errors=True)
        return out

    for res in core.pmap(one, list(range(n))):
        if "incon" in res:
            ctx.inconcl("tracking/modulation case %d: %s" % (res["i"], res["incon"]))
            continue
        if res["swing"] < 8:
            ctx.inconcl("tracking/modulation case %d: centroid swings by %.1f cells only" % (res["i"], res["swing"]))
            continue
        ctx.case("follow_prog:%s" % sorted((k, str(v)) for k, v in res["opts"].items()))
        ctx.ev("program_runs_particle_on_modulated_centroid")
        ctx.ev("program_records_particle_vs_centroid", res["records"])
        ctx.residual("prog.particle_minus_centroid_cells", res["worst"], 1.5)
        if res["worst"] > 1.5:
            ctx.violation("C15:prog:follow:dynamic_rf", "tracked particle started on the bunch centroid leaves the recorded centroid while the RF phase is modulated (all steps affine)",
                          dict(options=res["opts"], cmd=res["cmd"], centroid_swing_cells=res["swing"], worst_deviation_cells=res["worst"], at_record=res["at"]))


def run(ctx):
    ctx.assumptions = ASSUME
    ctx.rule = ("follow: (map kind of 6, grid 32..256, order 2-4, shift, smooth displacement field) x 12 particles; followfp: (Fokker-Planck map full / damping only x derivative stencil 3/4 x deterministic tracking model 1/2, grid 48..128, decrement 2e-3..3e-2) x 8 blobs + particles at least a quarter of the grid from zero energy; followdyn: (dynamic RF map linear/sinus x phase modulation / noise / both, grid 48..192, order 2-4) x 12 consecutive steps, one blob + particle per step; ingrid: (all kick kinds with displacements up to 0.44 n, FP map x 4 tracking models x FP type x stencil x decrement) x 160 particles incl. 100 edge combinations x 12..400 steps; "
                "ensemble: (grid, shifts, steps per period, decrement) x 20000 particles x five damping times; program: tracking files with edge particles under ASan/UBSan; distinct by parameters")
    th = ctx.tier == "thorough"
    core.run_harness(ctx, "c15", 12000 if th else 600, args=["--mode", "follow"])
    core.run_harness(ctx, "c15", 6000 if th else 360, args=["--mode", "followdyn"])
    core.run_harness(ctx, "c15", 200 if th else 36, variant="asan", args=["--mode", "followdyn"])
    core.run_harness(ctx, "c15", 4000 if th else 320, args=["--mode", "followfp"])
    core.run_harness(ctx, "c15", 160 if th else 32, variant="asan", args=["--mode", "followfp"])
    core.run_harness(ctx, "c15", 12000 if th else 720, args=["--mode", "ingrid"])
    core.run_harness(ctx, "c15", 800 if th else 96, variant="asan", args=["--mode", "ingrid"])
    core.run_harness(ctx, "c15", 400 if th else 48, variant="asan", args=["--mode", "follow"])
    core.run_harness(ctx, "c15", 96 if th else 8, args=["--mode", "ensemble"], chunk=1)
    prog_part(ctx)
    prog_follow(ctx)
    ctx.min_events = {"particles_followed": 3000, "particle_moves_checked": 200000, "ensemble_snapshots": 100,
                      "fp_track_model.0": 10, "fp_track_model.1": 10, "fp_track_model.2": 10, "fp_track_model.3": 10,
                      "tracking_runs_under_sanitizer": 4,
                      "particles_followed_dynamic_rf": 2000, "particles_followed_through_fp_step": 1500, "followdyn_cases_with_kick_changing_between_steps": 150, "ensembles_under_fp_alone": 3, "program_runs_particle_on_modulated_centroid": 2}
