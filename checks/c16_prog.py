"""C16 program part: the impedance the program builds from its options and stores in the results file is the model's formula for the
machine the options describe (bending radius as given, or the iso-magnetic one c/(2 pi f_rev) when it is not)."""
import math
import os
import shutil

import numpy as np

from vlib import core, prog, physics

Z0 = 376.730313668
GAMMA23 = 1.3541179394264004
C0 = 299792458.0


def run(ctx):
    sdir = os.path.join(ctx.scratch(), "prog16")
    os.makedirs(sdir, exist_ok=True)
    n = 24 if ctx.tier == "thorough" else 8

    def one(i):
        r = core.Rng("c16prog", ctx.seed, i)
        d = os.path.join(sdir, "z%02d" % i)
        os.makedirs(d, exist_ok=True)
        o = dict(GridSize=32, StepsPerTs=100, rotations=0.02, outstep=1, output="o.h5", BunchCurrent=[1e-4])
        kind = ["freespace", "freespace", "wall", "collimator"][i % 4]
        # radius: not given / below / above the iso-magnetic radius of the revolution frequency
        if r.chance(0.5):
            o["RevolutionFrequency"] = r.choice([2.7157e6, 5e6, 1.2e7])
            if o["RevolutionFrequency"] < 5e6:
                o["HarmonicNumber"] = 184
        frev = o.get("RevolutionFrequency", 9e6)
        iso = C0 / (2 * math.pi * frev)
        o["BendingRadius"] = [-1.0, round(iso * r.uniform(0.15, 0.8), 3), round(iso * r.uniform(1.2, 3.0), 3), round(iso * r.uniform(0.3, 0.95), 3)][(i // 4 + i) % 4]
        if kind == "freespace":
            o["VacuumGap"] = -0.03
        elif kind == "wall":
            o["UseCSR"] = False
            o["WallConductivity"] = r.loguniform(1e6, 6e7)
            o["VacuumGap"] = r.choice([0.02, 0.03])
        else:
            o["UseCSR"] = False
            o["VacuumGap"] = 0.03
            o["CollimatorRadius"] = r.choice([0.004, 0.01])
        res = prog.run_inovesa("rel", o, d, os.path.join(sdir, "xdg%d" % (i % 4)), timeout=300)
        out = dict(i=i, kind=kind, opts=o, cmd=" ".join(res["argv"]), viol=[])
        if prog.program_outcome_key(res) or res["rc"] != 0 or not os.path.exists(os.path.join(d, "o.h5")):
            out["incon"] = "run failed: %s" % res["err"][-200:]
            return out
        h = prog.H5(os.path.join(d, "o.h5"))
        # frequencies at which main() asks the factory for the impedance: a ruler of wake_N points from 0 to f_max = GridSize*c/(PhaseSpaceSize*sigma_z).
        # (The frequency axis stored in the file is the field's own ruler, which ends at (GridSize-1)*c/(PhaseSpaceSize*sigma_z): the two differ by
        #  GridSize/(GridSize-1), see DESIGN.md 11 "observations outside the properties"; C16 is about the models' values for their arguments.)
        P = physics.derive({k: v for k, v in o.items() if k != "output"})
        fmax = P["n"] * C0 / (P["pq"] * P["bl"])
        f = np.arange(h["/Impedance/data/real"].shape[0], dtype=float) * fmax / (P["wake_N"] - 1)
        f_axis = h["/Info/AxisValues_f"].astype(float) * h.attrs.get("/Info/AxisValues_f", {}).get("Hertz", float("nan"))
        out_axis_ratio = float(f[-1] / f_axis[-1]) if f_axis[-1] else float("nan")
        z = (h["/Impedance/data/real"].astype(float) + 1j * h["/Impedance/data/imag"].astype(float)) * h.attrs.get("/Impedance/data", {}).get("Ohm", 1.0)
        R = o["BendingRadius"] if o["BendingRadius"] > 0 else iso
        m = len(z)
        sel = np.arange(1, m)
        if kind == "freespace":
            f0 = C0 / (2 * math.pi * R)
            want = Z0 * GAMMA23 / 3 ** (1 / 3.0) * np.exp(1j * math.pi / 6) * np.cbrt(f / f0)
        elif kind == "wall":
            b = abs(o["VacuumGap"]) / 2
            want = (1 - 1j) * (C0 / frev) / (2 * math.pi * b) * np.sqrt(2 * math.pi * f * 4e-7 * math.pi / (2 * o["WallConductivity"]))
        else:
            want = np.full(m, Z0 / math.pi * math.log((abs(o["VacuumGap"]) / 2) / o["CollimatorRadius"]), dtype=complex)
        err = np.abs(z[sel] - want[sel]) / np.abs(want[sel])
        out["samples"] = int(len(sel))
        out["axis_ratio"] = out_axis_ratio
        out["worst"] = float(err.max())
        out["given_radius"] = o["BendingRadius"] > 0
        out["below_iso"] = 0 < o["BendingRadius"] < iso
        if not np.all(np.isfinite(z)) or np.any(z.real < 0):
            out["viol"].append(("C16:prog:wellformed:" + kind, "stored impedance has a non-finite sample or a negative real part", dict(options=o, cmd=out["cmd"])))
        elif err.max() > 2e-3:
            j = int(sel[int(err.argmax())])
            out["viol"].append(("C16:prog:value:" + kind, "the impedance the program stores is not the model's formula for the machine the options describe",
                                dict(options=o, cmd=out["cmd"], index=j, frequency=float(f[j]), got=[float(z[j].real), float(z[j].imag)], want=[float(want[j].real), float(want[j].imag)],
                                     bending_radius_used_by_the_oracle=R, isomagnetic_radius=iso)))
        shutil.rmtree(d, ignore_errors=True)
        return out

    for res in core.pmap(one, list(range(n))):
        if "incon" in res:
            ctx.inconcl("program case %d: %s" % (res["i"], res["incon"]))
            continue
        ctx.case("prog16:%s" % sorted((k, str(v)) for k, v in res["opts"].items()))
        ctx.ev("program_impedances_checked")
        ctx.ev("program_impedance." + res["kind"])
        ctx.ev("program_impedance_samples_checked", res["samples"])
        if res["given_radius"]:
            ctx.ev("program_runs_with_a_given_bending_radius")
        if res["below_iso"]:
            ctx.ev("program_runs_with_a_radius_below_the_isomagnetic_one")
        ctx.residual("prog.stored_impedance_rel_err." + res["kind"], res["worst"], 2e-3)
        ctx.extra.setdefault("impedance_frequencies_over_stored_axis", []).append(round(res["axis_ratio"], 5))
        for key, what, det in res["viol"]:
            ctx.violation(key, what, det)
    ctx.min_events.update({"program_impedances_checked": n // 2, "program_runs_with_a_radius_below_the_isomagnetic_one": 1})
