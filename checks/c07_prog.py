"""C07 program part: in every record of a results file - also the final record of a run that was interrupted - the stored CSR
intensity equals one half of the sum over the bunch of stored profile times stored wake potential (Parseval), for runs whose wake
and radiation impedance are the same (CSR only, no wall/collimator/file), one bunch, cutoff disabled."""
import math
import os
import shutil

import numpy as np

from vlib import core, prog, physics


def run(ctx):
    sdir = ctx.scratch()
    n = 40 if ctx.tier == "thorough" else 8

    def one(i):
        r = core.Rng("c07prog", ctx.seed, i)
        d = os.path.join(sdir, "p%03d" % i)
        os.makedirs(d, exist_ok=True)
        g = r.choice([48, 64, 96])
        steps = r.choice([50, 100, 200])
        o = dict(GridSize=g, StepsPerTs=steps, rotations=r.choice([0.5, 1.0, 2.0]), outstep=r.choice([1, 3, 10]), SavePhaseSpace=0, CutoffFreq=0,
                 BunchCurrent=[round(r.loguniform(2e-4, 3e-3), 7)], InitialDistZoom=r.choice([0.6, 1.0, 1.5]), padding=r.choice([2.0, 4.0, 8.0]), output="o.h5")
        if r.chance(0.3):
            o["VacuumGap"] = -1.0            # free-space CSR
        if r.chance(0.3):
            o["RoundPadding"] = False
            o["padding"] = r.choice([2.0, 3.3, 5.0])
        P = physics.derive({k: v for k, v in o.items() if k != "output"})
        env = None
        interrupted = (i % 2 == 1)
        if interrupted:
            rr = core.Rng("c07int", ctx.seed, i)
            env = {"INOVESA_VERIF_SIGINT_AT": str(rr.randint(70, 60 + 18 * max(1, P["laststep"]))), "INOVESA_VERIF_POINTLOG": "points.log"}
        res = prog.run_inovesa("rel", o, d, os.path.join(d, "xdg"), timeout=900, env=env)
        out = dict(i=i, opts=o, cmd=" ".join(res["argv"]) + ((" [SIGINT at interrupt point %s]" % env["INOVESA_VERIF_SIGINT_AT"]) if env else ""), viol=[], records=0, worst=0.0, interrupted=False)
        if prog.program_outcome_key(res) or res["rc"] != 0 or not os.path.exists(os.path.join(d, "o.h5")):
            out["incon"] = "run failed: " + res["err"][-200:]
            return out
        out["interrupted"] = interrupted and "Aborted" in res["out"]
        h = prog.H5(os.path.join(d, "o.h5"))
        prof = h["/BunchProfile/data"].astype(np.float64)[:, 0, :]
        wake = h["/WakePotential/data"].astype(np.float64)[:, 0, :]
        inten = h["/CSR/Intensity/data"].astype(np.float64)[:, 0]
        zre = h["/Impedance/data/real"].astype(np.float64)
        N = P["padded_bins"]
        delta = P["delta"]
        df = (1.0 / delta) / (N - 1)
        scale = P["Ib"] * P["dt"] * physics.C / P["bl"] / (delta * P["sE"] * P["E0"]) / N
        nrec = min(prof.shape[0], wake.shape[0], inten.shape[0])
        for rec in range(nrec):
            if not (np.all(np.isfinite(prof[rec])) and np.all(np.isfinite(wake[rec])) and np.isfinite(inten[rec])):
                continue
            pad = np.zeros(N); pad[:g] = prof[rec]
            F2 = np.abs(np.fft.rfft(pad)) ** 2
            lhs = inten[rec] / (df * delta * delta)
            rhs = 0.5 * float(np.sum(prof[rec] * wake[rec])) / scale
            # the zero-frequency and top terms are exempt (the top bin of the impedance is not stored: taken like the last stored one)
            exempt = 0.5 * abs(zre[0]) * F2[0] + 1.5 * abs(zre[min(len(zre) - 1, N // 2 - 1)]) * F2[N // 2]
            ref = float(np.sum(np.abs(zre[:N // 2]) * F2[:N // 2]))
            tol = 5e-5 * (abs(lhs) + abs(rhs) + ref) + exempt + 1e-300
            err = abs(lhs - rhs) / tol
            out["records"] += 1
            out["worst"] = max(out["worst"], err)
            last = (rec == nrec - 1)
            if last and out["interrupted"]:
                out["final_of_interrupted"] = 1
            if (err > 1 or inten[rec] < 0) and not out["viol"]:
                out["viol"].append(("C07:prog:parseval" + (":final_record_of_interrupted_run" if last and out["interrupted"] else ""),
                                    "stored CSR intensity is not one half of the sum of stored profile times stored wake potential (or is negative)",
                                    dict(options=o, cmd=out["cmd"], record=rec, of=nrec, intensity_over_df_dq2=lhs, half_rho_W=rhs, tol=tol)))
        shutil.rmtree(d, ignore_errors=True)
        return out

    for res in core.pmap(one, list(range(n))):
        if "incon" in res:
            ctx.inconcl("program run %d: %s" % (res["i"], res["incon"]))
            continue
        ctx.case("prog:%s:%s" % (sorted((k, str(v)) for k, v in res["opts"].items()), res["interrupted"]))
        ctx.ev("program_runs")
        ctx.ev("program_records_parseval", res["records"])
        if res.get("final_of_interrupted"):
            ctx.ev("program_final_records_of_interrupted_runs")
        ctx.residual("prog.parseval_err_over_tol", res["worst"], 1.0)
        for key, what, det in res["viol"]:
            ctx.violation(key, what, det)
    ctx.min_events["program_runs"] = max(3, n // 2)
    ctx.min_events["program_records_parseval"] = 30
    ctx.min_events["program_final_records_of_interrupted_runs"] = 1
