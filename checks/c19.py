"""C19 - zero-amplitude RF modulation is the static RF; applied modulation is recorded."""
from vlib import core

ASSUME = [
    "zero-amplitude comparison is bit-for-bit on the displacement table and on the grid after apply(), for every step",
    "the kick applied in step k is observed through the grid it produced: a static RF map of the same parameters, set to the (phase, amplitude) recorded for step k and applied to the same input, must give the same grid bit for bit (hash over all cells)",
    "that kick table is recomputed by the oracle in double from the recorded (phase, amplitude) pair with the documented formulas (linear: A*tan(angle)*((x0-x) - (phase-phi_s)/(k_RF*dz)); sinusoidal: revpart*(V0 - A*V*sin(k_RF*q+phase))/dE_cell); tolerance 2e-5 of the largest kick",
    "pure phase modulation: entries - phi_s = A*sin(2 pi f dt k) with a tolerance that grows with the accumulated single-precision phase (4e-7 per radian)",
    "about one case in a hundred is a pure modulation of 40000-300000 steps on a 16x16 grid: the recorded frequency must not drift (same tolerance law)",
    "apply() is never called more often than the number of steps given to the constructor (main's contract)",
]


def run(ctx):
    ctx.assumptions = ASSUME
    ctx.rule = ("case = (RF model, grid, order, angle/voltages, modulation class: all-zero / pure phase modulation / noise(+modulation), steps 3..400, random flush points); distinct by hash of parameters")
    th = ctx.tier == "thorough"
    core.run_harness(ctx, "c19", 20000 if th else 960)
    core.run_harness(ctx, "c19", 1500 if th else 96, variant="asan")
    ctx.min_events = {"applies": 10000, "zero_amplitude_steps": 3000, "kicks_compared": 100000,
                      "modulation_entries_checked": 3000, "flushes": 1000, "long_modulation_runs": 3, "steps_compared_with_nonzero_result": 5000}
    try:
        from checks import c19_prog
        c19_prog.run(ctx)
    except ImportError:
        pass
