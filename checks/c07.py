"""C07 - CSR power equals the energy the wake takes from the beam and is never negative."""
from vlib import core

ASSUME = [
    "Parseval part: one bunch (the relation is per profile; a train couples bunches through the wake), in a third of the cases sitting in bucket 1-3 instead of 0; the wake is requested before the spectrum in half of the cases",
    "train part: 2-5 bunches in a radiation field as main() builds it (no spacing): spectrum_b = dq^2*cutoff*Re Z*|F_b|^2 with the oracle's own DFT of bunch b alone (2e-5 of the maximum), power_b = delta_f * sum of that spectrum",
    "|P/(df*dq^2) - 1/2 sum rho*W_raw| <= 1/2|Re Z0||F0|^2 + |Re Z_top||F_top|^2 + (1e-5 + N*2^-24/4)*(sum Re Z|F|^2 + max|W|*sum|rho|) (single-precision FFT and float accumulation over N terms), the two exempted terms computed by the oracle's own DFT; two thirds of the cases have Z0 = Z_top = 0 so that the relation must hold without exemption",
    "program part: one bunch, CSR-only impedance (parallel plates or free space: wake and radiation impedance are then the same table), cutoff disabled, paddings with and without rounding; every record - half of the runs are interrupted by a real SIGINT through the guarded hook, so also the final record of an aborted run - must satisfy Intensity/(df*dq^2) = 1/2 sum profile*wake/scale within 5e-5 of (lhs + rhs + sum|Re Z||F|^2) plus the exempt terms",
    "passive impedances: the four models of the repository, random ones with Re Z >= 0, and what makeImpedance() returns for CSR (shielded or not) + optional resistive wall (xi >= 0) + collimator openings from 0.05 to 2.5 times the gap",
    "cutoff history on one object: cutoff first then disabled (Parseval must hold as if never filtered); afterwards a 2-30 times higher cutoff must not give more power than the first, and disabling it again must reproduce the unfiltered power bit for bit",
]


def run(ctx):
    ctx.assumptions = ASSUME
    ctx.rule = ("case = (impedance model of 5 or the output of the program's impedance factory for random option combinations, grid 8..64, transform length power of two / composite / odd / prime, profile flavour, exempt terms zeroed or not, cutoff on/off, requested before or after the unfiltered spectrum, then a higher cutoff and none again on the same object); distinct by hash(N, n, model, profile)")
    th = ctx.tier == "thorough"
    xdg = core.warm_wisdom(ctx, "c06")
    core.run_harness(ctx, "c06", 40000 if th else 1920, args=["--mode", "c07"], xdg=xdg)
    core.run_harness(ctx, "c06", 3000 if th else 192, variant="asan", args=["--mode", "c07"], xdg=xdg)
    core.run_harness(ctx, "c06", 12000 if th else 640, args=["--mode", "c07mb"], xdg=xdg)
    core.run_harness(ctx, "c06", 600 if th else 64, variant="asan", args=["--mode", "c07mb"], xdg=xdg)
    ctx.min_events = {"bunch_spectra_checked": 1500, "wake_requested_before_spectrum": 300, "fields_checked": 1000, "cutoff_cases": 50, "model.freespace": 30,
                      "model.parallelplates": 30, "model.resistivewall": 30, "model.collimator": 30, "model.factory": 30, "cutoff_requested_before_disabled": 20}
    from checks import c07_prog
    c07_prog.run(ctx)
