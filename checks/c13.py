"""C13 - the configuration file saved next to the results reproduces the run."""
import os
import shutil

from vlib import core, prog, physics, h5oracle

ASSUME = [
    "exemptions: alpha0 when a non-zero synchrotron frequency overrides it (must then be the original value or 0), run_anyway (deliberately not saved, no effect once an output is set), config itself, and options without a getter in this build (ForceOpenGLVersion, gui)",
    "every other getter must return exactly the same value after parse(--config saved.cfg) as after the original parse (hex-float comparison)",
    "program complement: rerun with the saved .cfg plus an overriding --output; physics datasets must be bit-identical (one warmed wisdom directory per pair); half of the pairs set the synchrotron frequency (a quarter together with an alpha0 of either sign), most with non-zero alpha1/alpha2 so that the momentum compaction actually used shows in the results",
]


def prog_part(ctx):
    sdir = ctx.scratch()
    n = 72 if ctx.tier == "thorough" else 12

    def one(i):
        r = core.Rng("c13prog", ctx.seed, i)
        d = os.path.join(sdir, "p%03d" % i)
        os.makedirs(d, exist_ok=True)
        xdg = os.path.join(d, "xdg")
        o = dict(GridSize=r.choice([32, 48, 64]), StepsPerTs=r.choice([40, 64, 100]), rotations=r.choice([0.25, 0.5]), outstep=r.choice([3, 7, 10]),
                 SavePhaseSpace=1, BeamEnergySpread=4.7e-4 * (1 + r.uniform(-0.1, 0.1)), AcceleratingVoltage=1e6 * (1 + r.uniform(-0.2, 0.2)),
                 padding=r.choice([2.0, 4.0, 8.0]))
        if i % 2 == 0:
            o["SynchrotronFrequency"] = float(r.choice([7000, 9000, 12000]))
            # the synchrotron frequency overrides alpha0 - whatever the run then "actually used" (magnitude, sign) must come back from the saved file;
            # higher orders of the momentum compaction make the sign and size of alpha0 visible in the results
            if i % 4 == 0:
                o["alpha0"] = r.choice([-4e-3, -1e-3, -6.5e-3]) if (i // 4) % 2 == 0 else r.choice([5e-3, -2e-3])
            if i % 4 == 0 or r.chance(0.5):
                o["alpha1"] = r.choice([3e-2, -2e-2, 1e-2])
            if r.chance(0.3):
                o["alpha2"] = r.choice([0.2, -0.1])
        else:
            o["alpha0"] = r.choice([2e-3, 4e-3, 6.123e-3])
            if r.chance(0.4):
                o["alpha1"] = r.choice([3e-2, -2e-2])
        if i % 3 == 0:
            o["BunchCurrent"] = [round(r.loguniform(1e-4, 1e-3), 7), round(r.loguniform(1e-4, 1e-3), 7)]
            o["HarmonicNumber"] = 400
        else:
            o["BunchCurrent"] = [round(r.loguniform(1e-4, 2e-3), 7)]
        if i % 4 == 1:
            o["VacuumGap"] = 0
        prog.sprinkle(core.Rng("c13nuisance", ctx.seed, i), o, wd=d, clamp_ok=True, padding_ok=False)        # more options that have to survive the round trip
        prog.run_inovesa("rel", dict(o, outstep=0, rotations=0.01, output="warm.h5"), d, xdg, timeout=600)
        env1, env1lab = prog.envmix(core.Rng("c13env1", ctx.seed, i), 0.25)
        # every second pair gives the output as an absolute path (below HOME, which run_inovesa sets to the run directory) and takes it from the
        # saved file in the rerun, which is started from another working directory: only possible when no other option holds a relative path
        abs_out = i % 2 == 1 and not any(isinstance(v, str) and not os.path.isabs(v) for v in o.values())
        r1 = prog.run_inovesa("rel", dict(o, output=os.path.join(d, "first.h5") if abs_out else "first.h5"), d, xdg, timeout=600, env=env1)
        out = dict(i=i, opts=o, cmd=" ".join(r1["argv"]))
        if r1["rc"] != 0 or not os.path.exists(os.path.join(d, "first.h5.cfg")):
            out["incon"] = "original run failed: " + r1["err"][-200:]
            return out
        # the rerun happens in another shell, another day: half of the reruns (and a quarter of the original runs) get an environment that differs
        # in things that are no parameter of the simulation (prog.envmix); the FFT wisdom directory stays the same
        env2, envlab = prog.envmix(core.Rng("c13env2", ctx.seed, i), 0.5)
        if abs_out:
            os.rename(os.path.join(d, "first.h5"), os.path.join(d, "orig.h5"))
            os.makedirs(os.path.join(d, "elsewhere"), exist_ok=True)
            if "HOME" not in (env2 or {}):
                env2 = dict(env2 or {}, HOME=d)          # same HOME as the original run unless the mix changes it
            r2 = prog.run_inovesa("rel", {}, os.path.join(d, "elsewhere"), xdg, timeout=120, config=os.path.join(d, "first.h5.cfg"), env=env2)
            out["abs_out"] = True
            f1, f2 = "orig.h5", "first.h5"
        else:
            r2 = prog.run_inovesa("rel", dict(output="second.h5"), d, xdg, timeout=120, config="first.h5.cfg", env=env2)
            f1, f2 = "first.h5", "second.h5"
        out["cmd2"] = " ".join(r2["argv"])
        out["env"] = env1lab + " / " + envlab
        out["cfg"] = open(os.path.join(d, "first.h5.cfg")).read()
        bad = prog.program_outcome_key(r2)
        if bad:
            out["viol"] = ("C13:rerun:" + bad[0].split(":")[0], "rerun with the saved configuration does not terminate normally: " + bad[1])
            return out
        if r2["rc"] != 0 or not os.path.exists(os.path.join(d, f2)):
            out["viol"] = ("C13:rerun:no_output", "rerun with the saved configuration produces no results")
            out["stderr"] = (r2["out"] + r2["err"])[-400:]
            return out
        h1, h2 = prog.H5(os.path.join(d, f1)), prog.H5(os.path.join(d, f2))
        P = physics.derive(o)
        nrec, badrec = h5oracle.compare_common_records(h1, h2, P["steps"])
        out["compared"] = nrec
        if h1["/Info/AxisValues_t"].shape != h2["/Info/AxisValues_t"].shape:
            out["viol"] = ("C13:rerun:different_records", "rerun with the saved configuration has a different number of records")
        elif badrec:
            out["viol"] = ("C13:rerun:" + badrec[0]["dataset"], "rerun with the saved configuration gives different results")
            out["bad"] = badrec[0]
        shutil.rmtree(d, ignore_errors=True)
        return out

    for res in core.pmap(one, list(range(n))):
        if "incon" in res:
            ctx.inconcl("program pair %d: %s" % (res["i"], res["incon"]))
            continue
        ctx.case("prog:%s" % sorted((k, str(v)) for k, v in res["opts"].items()))
        ctx.ev("reruns_with_saved_cfg")
        if res.get("env", "plain / plain") != "plain / plain":
            ctx.ev("reruns_in_a_changed_environment")
        if res.get("abs_out"):
            ctx.ev("reruns_from_another_directory_output_taken_from_the_saved_file")
        ctx.ev("rerun_records_compared", res.get("compared", 0))
        if "viol" in res:
            ctx.violation(res["viol"][0], res["viol"][1], dict(options=res["opts"], cmd=res["cmd"], rerun_cmd=res.get("cmd2"), environment=res.get("env"), saved_cfg=res.get("cfg", "")[:1200],
                                                            detail=res.get("bad"), stderr=res.get("stderr")))


def run(ctx):
    ctx.assumptions = ASSUME
    ctx.rule = ("API: random assignment of every option (legal domain, values needing 9/17 significant digits, 1-5 bunch currents, alpha0 and/or synchrotron frequency), split randomly between command line, parent config file and defaults, "
                "-> parse -> save -> fresh parse(--config saved) -> every getter compared; program: run, rerun with the saved .cfg, physics datasets compared bitwise")
    th = ctx.tier == "thorough"
    core.run_harness(ctx, "c20", 200000 if th else 4000, args=["--mode", "c13"])
    core.run_harness(ctx, "c20", 4000 if th else 320, variant="asan", args=["--mode", "c13"])
    prog_part(ctx)
    ctx.min_events = {"save_reload_cycles": 2000, "getters_compared": 100000, "reruns_with_saved_cfg": 6}
