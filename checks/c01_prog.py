"""C01 program part: the steps as main() wires them (which grid feeds which map) conserve the charge of a bunch
that stays clear of the border.  Every step is recorded (outstep 1, phase space saved, no renormalisation) and the
plain sum over all cells of every bunch is followed from record to record."""
import os
import shutil

import numpy as np

from vlib import core, prog, physics


def run(ctx):
    sdir = ctx.scratch()
    n = 64 if ctx.tier == "thorough" else 10

    def one(i):
        r = core.Rng("c01prog", ctx.seed, i)
        d = os.path.join(sdir, "q%03d" % i)
        os.makedirs(d, exist_ok=True)
        g = r.choice([96, 128, 129, 160])
        steps = r.choice([100, 150, 200, 300])
        pts = r.choice([2, 3, 4])
        o = dict(GridSize=g, StepsPerTs=steps, rotations=min(1.0, r.choice([100, 150]) / steps), outstep=1, SavePhaseSpace=1, RenormalizeCharge=-1,
                 InterpolationPoints=pts, InitialDistZoom=r.choice([0.4, 0.5, 0.6]), LinearRF=r.chance(0.6), output="o.h5")
        fpclass = ["no_damping", "fptype0", "stencil3", "stencil4", "no_damping"][i % 5]
        if fpclass == "no_damping":
            o["DampingTime"] = 0.0
        elif fpclass == "fptype0":
            o["FPType"] = 0
        elif fpclass == "stencil3":
            o["derivation"] = 3
            o["FPType"] = r.choice([1, 2, 3])
        else:
            o["derivation"] = 4
        if r.chance(0.5):
            o["VacuumGap"] = 0
        else:
            o["BunchCurrent"] = [round(r.loguniform(5e-5, 4e-4), 7)]
        if r.chance(0.3):
            a = round(r.loguniform(1e-4, 4e-4), 7)
            o["BunchCurrent"] = [a, a]
            o["HarmonicNumber"] = r.choice([300, 400])
            o["VacuumGap"] = 0
        if r.chance(0.3):
            o["PhaseSpaceShiftX"] = round(r.uniform(-2, 2), 2)
            o["PhaseSpaceShiftY"] = round(r.uniform(-2, 2), 2)
        out = dict(i=i, opts=o, fpclass=fpclass, viol=[], steps=0)
        prog.sprinkle(core.Rng("c01nuisance", ctx.seed, i), o, wd=d)
        res = prog.run_inovesa("rel", o, d, os.path.join(d, "xdg"), timeout=900)
        out["cmd"] = " ".join(res["argv"])
        if prog.program_outcome_key(res) or res["rc"] != 0:
            out["incon"] = "run failed: " + res["err"][-200:]
            return out
        P = physics.derive({k: v for k, v in o.items() if k != "output"})
        h = prog.H5(os.path.join(d, "o.h5"))
        ps = h["/PhaseSpace/data"].astype(np.float64)          # (records, bunches, x, y)
        if ps.ndim != 4 or ps.shape[0] < 3 or not np.all(np.isfinite(ps)):
            out["incon"] = "no usable phase-space records"
            return out
        # "clear of the border before and after the displacement": before a step nothing to speak of may sit within the largest possible
        # displacement of the step (RF kick + drift + wake kick, plus two cells of stencil per map) + 4 cells of any edge
        import math
        a = 2 * math.pi / steps
        dmax = math.tan(a) * (g / 2.0 + abs(o.get("PhaseSpaceShiftX", 0.0)) + 1) + math.tan(a) * (g / 2.0 + abs(o.get("PhaseSpaceShiftY", 0.0)) + 1)
        if "/WakePotential/data" in h:
            wk = h["/WakePotential/data"].astype(np.float64)
            if wk.size and np.all(np.isfinite(wk)):
                dmax += float(np.max(np.abs(wk)))
        m = 4 + int(math.ceil(dmax)) + 8
        out["margin"] = m
        edge = np.abs(ps[:, :, :m, :]).sum(axis=(2, 3)) + np.abs(ps[:, :, -m:, :]).sum(axis=(2, 3)) + np.abs(ps[:, :, :, :m]).sum(axis=(2, 3)) + np.abs(ps[:, :, :, -m:]).sum(axis=(2, 3))
        tot_abs = np.abs(ps).sum(axis=(2, 3))
        Q = ps.sum(axis=(2, 3))                                 # (records, bunches)
        e1 = P["e1"]
        delta = P["delta"]
        # rounding: 2^-24*(points+1)*sum|f| per map (a quarter of the API part's worst-case bound; observed <= 5 % of it), four maps per step.  Fokker-Planck (4-point stencil with damping): the tolerated
        # defect 1.5*e1 times the charge in the rows within 3 cells of the zero-energy bin
        per_step = 4 * 2.0 ** -24 * (pts + 1) * (1 + (4 * e1 / delta ** 2 if e1 > 0 else 0))
        band = np.zeros_like(Q)
        if e1 > 0 and fpclass == "stencil4" and o.get("FPType", 3) in (1, 3):
            yc = (g - 1) / 2.0 + o.get("PhaseSpaceShiftY", 0.0)
            lo, hi = max(0, int(np.floor(yc)) - 3), min(g, int(np.ceil(yc)) + 4)
            band = np.abs(ps[:, :, :, lo:hi]).sum(axis=(2, 3))
        # (interpolation ringing slowly spreads a 1e-20 ... 1e-8 floor over the grid: records are judged as long as what sits near the
        # border is far below the tolerance itself)
        clear = np.all(edge <= 0.05 * per_step * tot_abs, axis=1)
        first_unclear = int(np.argmin(clear)) if not np.all(clear) else Q.shape[0]
        if first_unclear < 1:
            out["incon"] = "charge within %d cells of the border already in the first record (fraction %.1e)" % (m, float(np.max(edge[0] / tot_abs[0])))
            return out
        # the step from record k-1 to k is judged when record k-1 is clear
        nrec = min(first_unclear + 1, Q.shape[0])
        Q, tot_abs, band = Q[:nrec], tot_abs[:nrec], band[:nrec]
        worst = 0.0
        for k in range(1, Q.shape[0]):
            for b in range(Q.shape[1]):
                tol = per_step * tot_abs[k - 1, b] + 1.5 * e1 * band[k - 1, b]
                err = abs(Q[k, b] - Q[k - 1, b])
                worst = max(worst, err / tol if tol > 0 else (0.0 if err == 0 else np.inf))
                out["steps"] += 1
                if err > tol and not out["viol"]:
                    out["viol"].append(("C01:prog:step:" + fpclass, "the charge of a bunch clear of the border changes from one recorded step to the next",
                                        dict(options=o, cmd=out["cmd"], record=k, bunch=b, before=float(Q[k - 1, b]), after=float(Q[k, b]), tol=float(tol))))
        # over the whole run the drift must stay within the accumulated model as well (a systematic loss far below the per-step bound)
        kk = Q.shape[0] - 1
        for b in range(Q.shape[1]):
            tol = kk * per_step * float(np.max(tot_abs[:, b])) / np.sqrt(max(kk, 1)) * 4 + 1.5 * e1 * float(np.sum(band[:-1, b]))
            err = abs(Q[kk, b] - Q[0, b])
            out["drift_over_tol"] = max(out.get("drift_over_tol", 0.0), err / tol if tol > 0 else 0.0)
            if err > tol and not out["viol"]:
                out["viol"].append(("C01:prog:drift:" + fpclass, "the charge of a bunch clear of the border drifts systematically over the run",
                                    dict(options=o, cmd=out["cmd"], records=int(kk), bunch=b, first=float(Q[0, b]), last=float(Q[kk, b]), tol=float(tol))))
        out["worst"] = worst
        shutil.rmtree(d, ignore_errors=True)
        return out

    for res in core.pmap(one, list(range(n))):
        if "incon" in res:
            ctx.inconcl("program run %d: %s" % (res["i"], res["incon"]))
            continue
        ctx.case("prog:%s" % sorted((k, str(v)) for k, v in res["opts"].items()))
        ctx.ev("program_runs")
        ctx.ev("program_runs." + res["fpclass"])
        ctx.ev("program_steps_followed", res["steps"])
        ctx.residual("prog.step_charge_change_over_tol", res["worst"], 1.0)
        ctx.residual("prog.run_charge_drift_over_tol", res.get("drift_over_tol", 0.0), 1.0)
        for key, what, det in res["viol"]:
            ctx.violation(key, what, det)
    ctx.min_events["program_runs"] = max(3, n // 2)
    ctx.min_events["program_runs.no_damping"] = 1
    ctx.min_events["program_steps_followed"] = 200
