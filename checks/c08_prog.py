"""C08 program part: identical bunches without impedance stay identical and reproduce the single-bunch run."""
import os
import shutil

import numpy as np

from vlib import core, prog, physics, h5oracle


def run(ctx):
    sdir = ctx.scratch()
    n = 60 if ctx.tier == "thorough" else 6

    def one(i):
        r = core.Rng("c08prog", ctx.seed, i)
        d = os.path.join(sdir, "p%03d" % i)
        os.makedirs(d, exist_ok=True)
        xdg = os.path.join(d, "xdg")
        a = round(r.loguniform(2e-4, 2e-3), 7)
        base = dict(GridSize=r.choice([32, 33, 48, 64]), StepsPerTs=r.choice([40, 64, 100]), rotations=r.choice([0.5, 1.0]), outstep=1, SavePhaseSpace=1,
                    VacuumGap=0, InterpolationPoints=r.choice([2, 3, 4]), derivation=r.choice([3, 4]), RenormalizeCharge=r.choice([-1, 0]),
                    HarmonicNumber=r.choice([300, 400]), LinearRF=r.chance(0.7))
        if r.chance(0.4):
            base["PhaseSpaceShiftX"] = round(r.uniform(-2, 2), 2)
            base["PhaseSpaceShiftY"] = round(r.uniform(-2, 2), 2)
        if r.chance(0.3):
            base["DampingTime"] = r.choice([0.0, 1e-3])
        if i % 3 == 1:
            base["InterpolateClamped"] = True        # whatever clamping does, it does it to every bunch as to a single one
        prog.sprinkle(core.Rng("c08nuisance", ctx.seed, i), base, clamp_ok=True)
        pattern = [[a, a], [a, 0.0, a], [a, a, 0.0, a, a]][i % 3]
        out = dict(i=i, base=base, pattern=pattern, viol=[], compared=0)
        files = {}
        for name, cur in (("single", [a]), ("train", pattern)):
            res = prog.run_inovesa("rel", dict(base, BunchCurrent=cur, output=name + ".h5"), d, xdg, timeout=900)
            if prog.program_outcome_key(res) or res["rc"] != 0:
                out["incon"] = "%s run failed: %s" % (name, res["err"][-200:])
                return out
            files[name] = prog.H5(os.path.join(d, name + ".h5"))
            out["cmd_" + name] = " ".join(res["argv"])
        s, t = files["single"], files["train"]
        nb = sum(1 for c in pattern if c > 0)
        scale = float(nb)     # shares 1/nb: powers of two for 2 and 4 bunches
        exact_scale = nb in (2, 4)
        w = dict(options=base, filling=pattern, cmd_train=out["cmd_train"], cmd_single=out["cmd_single"])
        for ds in ("/PhaseSpace/data", "/BunchProfile/data", "/EnergyProfile/data", "/BunchLength/data", "/BunchPosition/data", "/EnergySpread/data", "/EnergyAverage/data", "/BunchPopulation/data"):
            T, S = t[ds], s[ds]
            if T.shape[0] != S.shape[0] or T.shape[1] != nb:
                out["viol"].append(("C08:prog:shape:" + ds, "multi-bunch file does not have the single-bunch run's records / one row per bunch", dict(w, train=list(T.shape), single=list(S.shape))))
                continue
            for b in range(1, nb):
                out["compared"] += T.shape[0]
                if not h5oracle.bits_equal(T[:, 0], T[:, b]):
                    rec = int(np.argmax([not h5oracle.bits_equal(T[k, 0], T[k, b]) for k in range(T.shape[0])]))
                    out["viol"].append(("C08:prog:identical_bunches_diverge:" + ds, "identical bunches in a run without impedance do not stay identical", dict(w, bunch=b, first_record=rec)))
                    break
            scaled = ds in ("/PhaseSpace/data", "/BunchProfile/data", "/EnergyProfile/data", "/BunchPopulation/data")
            if exact_scale:
                ref = S[:, 0] * (np.float32(1.0 / scale) if scaled else np.float32(1.0))
                out["compared"] += T.shape[0]
                def same(x, y):
                    # scaling by a power of two is exact except in the subnormal range (grid corners, ~1e-39):
                    # bitwise where either value is a normal number of any relevance, 1e-36 absolute below
                    x = np.asarray(x, dtype=np.float32); y = np.asarray(y, dtype=np.float32)
                    big = np.maximum(np.abs(x), np.abs(y)) > 1e-30
                    okb = (x.view(np.uint32) == y.view(np.uint32)) | ((x == 0) & (y == 0))
                    oks = np.abs(x.astype(np.float64) - y.astype(np.float64)) <= 1e-36
                    return bool(np.all(np.where(big, okb, oks)))
                if not same(T[:, 0], ref):
                    rec = int(np.argmax([not same(T[k, 0], ref[k]) for k in range(T.shape[0])]))
                    out["viol"].append(("C08:prog:differs_from_single:" + ds, "a bunch of the train does not reproduce the single-bunch run", dict(w, first_record=rec)))
        shutil.rmtree(d, ignore_errors=True)
        return out

    for res in core.pmap(one, list(range(n))):
        if "incon" in res:
            ctx.inconcl("program group %d: %s" % (res["i"], res["incon"]))
            continue
        ctx.case("prog:%s:%s" % (sorted((k, str(v)) for k, v in res["base"].items()), res["pattern"]))
        ctx.ev("program_groups")
        ctx.ev("program_records_compared_bitwise", res["compared"])
        for key, what, wd in res["viol"]:
            ctx.violation(key, what, wd)
    ctx.min_events["program_groups"] = max(2, n // 2)
