// Common support for the API-level monitors (linked against the real objects).
#pragma once
#define INOVESA_ALLOW_PS_RESET 1
#include <cstdint>
#include <cstdio>
#include <cstdlib>
#include <cstring>
#include <cmath>
#include <map>
#include <set>
#include <string>
#include <vector>
#include <sstream>
#include <functional>
#include <unistd.h>

#include "defines.hpp"
#include "IO/Display.hpp"
#include "PS/PhaseSpace.hpp"

namespace vh {

// ---- counter-based PRNG: one stream per (seed, case index) -----------------
struct Rng {
    uint64_t s;
    explicit Rng(uint64_t seed, uint64_t idx = 0, uint64_t stream = 0) {
        s = seed * 0x9E3779B97F4A7C15ull + idx * 0xBF58476D1CE4E5B9ull + stream * 0x94D049BB133111EBull + 0x1234567;
        for (int i = 0; i < 4; i++) u64();
    }
    uint64_t u64() {
        uint64_t z = (s += 0x9E3779B97F4A7C15ull);
        z = (z ^ (z >> 30)) * 0xBF58476D1CE4E5B9ull;
        z = (z ^ (z >> 27)) * 0x94D049BB133111EBull;
        return z ^ (z >> 31);
    }
    double uni() { return (u64() >> 11) * (1.0 / 9007199254740992.0); }
    double uni(double a, double b) { return a + (b - a) * uni(); }
    int64_t range(int64_t a, int64_t b) { return a + (int64_t)(u64() % (uint64_t)(b - a + 1)); }  // inclusive
    bool chance(double p) { return uni() < p; }
    double logu(double a, double b) { return std::exp(uni(std::log(a), std::log(b))); }
    double gauss() {
        double u1 = uni(), u2 = uni();
        if (u1 < 1e-300) u1 = 1e-300;
        return std::sqrt(-2 * std::log(u1)) * std::cos(6.283185307179586 * u2);
    }
    template <class T> const T& pick(const std::vector<T>& v) { return v[u64() % v.size()]; }
};

// ---- tiny JSON builder -------------------------------------------------------
struct J {
    std::ostringstream o; bool first = true;
    J() { o << "{"; }
    void key(const std::string& k) { if (!first) o << ","; first = false; o << "\"" << k << "\":"; }
    static std::string num(double v) {
        if (std::isnan(v)) return "\"nan\"";
        if (std::isinf(v)) return v > 0 ? "\"inf\"" : "\"-inf\"";
        char b[40]; snprintf(b, 40, "%.9g", v); return b;
    }
    J& n(const std::string& k, double v) { key(k); o << num(v); return *this; }
    J& i(const std::string& k, long long v) { key(k); o << v; return *this; }
    J& s(const std::string& k, const std::string& v) {
        key(k); o << "\"";
        for (char c : v) { if (c == '"' || c == '\\') o << '\\'; if ((unsigned char)c >= 32) o << c; }
        o << "\""; return *this;
    }
    J& raw(const std::string& k, const std::string& v) { key(k); o << v; return *this; }
    template <class T> J& arr(const std::string& k, const std::vector<T>& v, size_t cap = 16) {
        key(k); o << "[";
        for (size_t a = 0; a < v.size() && a < cap; a++) { if (a) o << ","; o << num((double)v[a]); }
        o << "]"; return *this;
    }
    std::string str() const { return o.str() + "}"; }
};

// ---- per-process monitor state ----------------------------------------------
struct Monitor {
    uint64_t seed = 1; long from = 0, count = 1; std::string tier = "quick";
    std::map<std::string, long> events;
    std::map<std::string, std::pair<double, double>> worst;  // name -> (value, tol): worst value/tol ratio
    std::map<std::string, int> vcount;
    std::set<uint64_t> sigs;
    long cases = 0; long samples = 0; long distinct_extra = 0; int exhaustive = -1;
    long curcase = -1;
    std::vector<std::string> extra;

    void parse(int argc, char** argv) {
        for (int a = 1; a + 1 < argc; a += 2) {
            std::string k = argv[a];
            if (k == "--seed") seed = strtoull(argv[a + 1], 0, 10);
            else if (k == "--from") from = atol(argv[a + 1]);
            else if (k == "--count") count = atol(argv[a + 1]);
            else if (k == "--tier") tier = argv[a + 1];
            else { extra.push_back(k); extra.push_back(argv[a + 1]); }
        }
        vfps::Display::silent_mode = true;   // keep repository log lines off our protocol stream
    }
    std::string opt(const std::string& k, const std::string& def = "") const {
        for (size_t a = 0; a + 1 < extra.size(); a += 2) if (extra[a] == k) return extra[a + 1];
        return def;
    }
    bool thorough() const { return tier == "thorough"; }
    void ev(const std::string& k, long n = 1) { events[k] += n; }
    // announce the case on stderr so that a sanitizer abort can be attributed
    void begin_case(long idx, const std::string& descr) {
        curcase = idx; cases++;
        fprintf(stderr, "CASE %ld %s\n", idx, descr.c_str());
    }
    void sig(uint64_t h) { sigs.insert(h); }
    void sample(const std::string& json) {
        if (samples < 3) { printf("C %s\n", json.c_str()); samples++; }
    }
    void violation(const std::string& key, const std::string& what, const std::string& detail_json = "{}") {
        int& c = vcount[key];
        if (c++ < 5) {
            J j; j.s("key", key).s("what", what).i("case", curcase).raw("detail", detail_json);
            printf("V %s\n", j.str().c_str());
            fflush(stdout);
        }
    }
    // residual check: returns true when within tolerance (NaN counts as violation)
    bool within(const std::string& name, double value, double tol) {
        auto it = worst.find(name);
        double r = (tol > 0) ? value / tol : (value == 0 ? 0 : INFINITY);
        if (std::isnan(value)) r = INFINITY;
        if (it == worst.end()) worst[name] = {value, tol};
        else {
            double r0 = (it->second.second > 0) ? it->second.first / it->second.second : (it->second.first == 0 ? 0 : INFINITY);
            if (std::isnan(it->second.first)) r0 = INFINITY;
            if (r > r0) it->second = {value, tol};
        }
        return value <= tol;  // false for NaN
    }
    void finish() {
        J j; j.i("cases", cases);
        { std::ostringstream e; e << "{"; bool f = true;
          for (auto& kv : events) { if (!f) e << ","; f = false; e << "\"" << kv.first << "\":" << kv.second; }
          e << "}"; j.raw("events", e.str()); }
        { std::ostringstream e; e << "{"; bool f = true;
          for (auto& kv : worst) { if (!f) e << ","; f = false;
            e << "\"" << kv.first << "\":[" << (std::isfinite(kv.second.first) ? J::num(kv.second.first) : "null") << "," << J::num(kv.second.second) << "]"; }
          e << "}"; j.raw("worst", e.str()); }
        if (distinct_extra) j.i("distinct", distinct_extra);
        if (exhaustive >= 0) j.raw("exhaustive", exhaustive ? "true" : "false");
        printf("S %s\n", j.str().c_str());
        size_t n = 0;
        for (uint64_t h : sigs) {
            if (n % 64 == 0) printf("%sG", n ? "\n" : "");
            printf(" %016llx", (unsigned long long)h); n++;
        }
        if (n) printf("\n");
        fflush(stdout);
    }
};

inline uint64_t hmix(uint64_t h, uint64_t v) {
    h ^= v + 0x9E3779B97F4A7C15ull + (h << 6) + (h >> 2);
    return h * 0xBF58476D1CE4E5B9ull;
}
inline uint64_t hdata(const void* p, size_t n, uint64_t h = 1469598103934665603ull) {
    const unsigned char* c = (const unsigned char*)p;
    for (size_t i = 0; i < n; i++) { h ^= c[i]; h *= 1099511628211ull; }
    return h;
}

// ---- PhaseSpace helpers --------------------------------------------------------
inline void set_grid(uint32_t n, uint32_t nb) { vfps::PhaseSpace::resetSize(n, nb); }

inline std::vector<vfps::integral_t> even_filling(uint32_t nb) {
    std::vector<vfps::integral_t> f(nb, 1.0f / nb);
    // make the float sum round to exactly 1 at 1e-5 as the constructor demands
    return f;
}

inline std::shared_ptr<vfps::PhaseSpace> make_ps(double qmin, double qmax, double pmin, double pmax,
                                                 const std::vector<vfps::integral_t>& filling,
                                                 double qscale = 1e-3, double pscale = 1e5,
                                                 const vfps::meshdata_t* data = nullptr) {
    return std::make_shared<vfps::PhaseSpace>((vfps::meshaxis_t)qmin, (vfps::meshaxis_t)qmax, qscale,
                                              (vfps::meshaxis_t)pmin, (vfps::meshaxis_t)pmax, pscale,
                                              nullptr, 1e-9, 1e-3, filling, 1.0, data);
}

inline bool bits_equal(float a, float b) {   // identifies +0 and -0
    if (a == 0 && b == 0) return true;
    uint32_t x, y; memcpy(&x, &a, 4); memcpy(&y, &b, 4);
    return x == y;
}

}  // namespace vh
