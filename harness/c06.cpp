// C06 / C07 monitors on ElectricField:
//  mode c06: wake potential against a direct double-precision DFT convolution
//  mode c07: CSR power (spectrum) vs energy the wake takes from the beam (Parseval), signs
#include "efield.hpp"
#include "Z/FreeSpaceCSR.hpp"
#include "Z/ParallelPlatesCSR.hpp"
#include "Z/ResistiveWall.hpp"
#include "Z/CollimatorImpedance.hpp"
#include "Z/ConstImpedance.hpp"
#include "Z/ImpedanceFactory.hpp"
#include <complex>
#include <algorithm>

typedef std::complex<double> cd;
vh::Monitor M;
static const double PI2 = 6.283185307179586476925;

// direct DFT of the padded train
static std::vector<cd> dft_train(const Setup& s, const std::vector<double>& rho, size_t kmax) {
    std::vector<cd> F(kmax + 1);
    std::vector<double> pad(s.N, 0.0);
    for (uint32_t b = 0; b < s.nb; b++) for (uint32_t x = 0; x < s.n; x++) pad[(size_t)s.buckets[b] * s.spacing + x] = rho[(size_t)b * s.n + x];
    // (overlapping buckets would overwrite; generator never overlaps except spacing==0 single bunch)
    std::vector<size_t> nz; for (size_t m = 0; m < s.N; m++) if (pad[m] != 0) nz.push_back(m);
    for (size_t k = 0; k <= kmax; k++) {
        cd acc = 0;
        for (size_t m : nz) { double ph = -PI2 * (double)((k * m) % s.N) / (double)s.N; acc += pad[m] * cd(std::cos(ph), std::sin(ph)); }
        F[k] = acc;
    }
    return F;
}

static void mode_c06() {
    for (long c = M.from; c < M.from + M.count; c++) {
        Rng r(M.seed, c, 61);
        Setup s = gen_setup(r, false, M.thorough());
        s.Z.resize(s.N);
        double zs = r.logu(1e-2, 1e3);
        for (size_t k = 0; k < s.N; k++) s.Z[k] = {(float)(zs * r.uni(-1, 1)), (float)(zs * r.uni(-1, 1))};   // garbage in the upper half too
        s.Z[s.N / 2] = 0;    // the oracle takes no side on the top bin
        // a quarter of the cases: a table that ends early (short impedance file, zero-filled), always asked after another profile's wake
        bool sparse = (c % 4 == 3);
        if (sparse) { size_t k0 = (size_t)r.range(1, (int64_t)s.N / 2 - 1); for (size_t k = k0; k < s.N; k++) s.Z[k] = 0; M.ev("impedances_ending_early"); }
        M.begin_case(c, "c06 " + s.descr() + (sparse ? " sparse" : ""));
        auto ps = make_grid(s);
        std::vector<double> rho;
        int flavour = (int)r.range(0, 3);
        set_profiles(r, ps, s, rho, flavour);
        // as in the main loop, the charge on the grid has been measured since the profiles changed (and is not one): the wake is
        // linear in the profiles whatever the phase space reports as its integral
        if (c % 2 == 1) { ps->integrate(); M.ev("fields_with_measured_charge_not_one"); }
        // one case in eight: the field is built on an all-zero impedance object, asked for the wake of the very same profiles, and the
        // impedance is completed afterwards through the shared pointer (operator+=): the wake is the convolution with the impedance as it is now
        bool late = (c % 8 == 6);
        auto imp = late ? std::make_shared<Impedance>(std::vector<impedance_t>(s.N, impedance_t(0, 0)), (frequency_t)1e12)
                        : std::make_shared<Impedance>(s.Z, (frequency_t)1e12);
        ElectricField ef(ps, imp, s.buckets, s.spacing, nullptr, s.frev, (meshaxis_t)s.revpart, s.Ib, s.E0, s.sE, s.dt);
        if (late) { ef.wakePotential(); Impedance rest(s.Z, (frequency_t)1e12); (*imp) += rest; M.ev("impedance_completed_after_first_wake_request"); }
        // the wake must not depend on what the object was asked before: in half of the cases request the CSR
        // spectrum (and a wake of another profile) first
        bool history = r.chance(0.5) || sparse;
        if (history) {
            ef.updateCSR(r.chance(0.5) ? 0 : (frequency_t)1e10);
            if (r.chance(0.5) || sparse) { std::vector<double> other; Rng r2 = r; set_profiles(r2, ps, s, other, (flavour + 1) % 3); ef.wakePotential(); ef.updateCSR(0);
                                 for (uint32_t b = 0; b < s.nb; b++) { boost::multi_array<projection_t, 1> p(boost::extents[s.n]); for (uint32_t x = 0; x < s.n; x++) p[x] = (float)rho[(size_t)b * s.n + x]; ps->setProjection(0, b, p); } }
            M.ev("fields_with_call_history");
        }
        // ... nor on a padding request made while the profiles were other ones (padBunchProfiles() is public; the results writer uses it):
        // one field in four is asked to pad another set of profiles right before the wake of the real ones is requested
        if ((c / 3) % 4 == 2) {
            std::vector<double> other; Rng r3(M.seed, c, 977); set_profiles(r3, ps, s, other, (flavour + 2) % 3);
            ef.padBunchProfiles();
            for (uint32_t b = 0; b < s.nb; b++) { boost::multi_array<projection_t, 1> p(boost::extents[s.n]); for (uint32_t x = 0; x < s.n; x++) p[x] = (float)rho[(size_t)b * s.n + x]; ps->setProjection(0, b, p); }
            history = true;
            M.ev("fields_padded_with_other_profiles_right_before_the_wake_request");
        }
        const meshaxis_t* w = ef.wakePotential();
        // reference
        size_t kmax = s.N / 2;   // bins 0 .. floor(N/2)-1 are used
        auto F = dft_train(s, rho, kmax);
        double scale = s.Ib * s.dt * physcons::c / 2.3e-3 / ((double)ps->getDelta(1) * s.sE * s.E0) / (double)s.N;
        std::vector<double> ref((size_t)s.nb * s.n);
        double wmax = 0;
        for (uint32_t b = 0; b < s.nb; b++) for (uint32_t x = 0; x < s.n; x++) {
            size_t j = (size_t)s.buckets[b] * s.spacing + x;
            double acc = (cd((double)s.Z[0].real(), (double)s.Z[0].imag()) * F[0]).real();
            for (size_t k = 1; k < kmax; k++) {
                double ph = PI2 * (double)((k * j) % s.N) / (double)s.N;
                cd y = cd((double)s.Z[k].real(), (double)s.Z[k].imag()) * F[k];
                acc += 2 * (y.real() * std::cos(ph) - y.imag() * std::sin(ph));
            }
            ref[(size_t)b * s.n + x] = scale * acc;
            wmax = std::max(wmax, std::fabs(scale * acc));
        }
        if (wmax == 0) { M.cases--; continue; }
        double worst = 0; size_t wi = 0;
        auto& wp = ef.getWakePotentials();
        bool same_view = true;
        for (size_t i = 0; i < ref.size(); i++) {
            double e = std::fabs((double)w[i] - ref[i]);
            if (!(e <= worst)) { worst = e; wi = i; }
            if (!vh::bits_equal(wp[i / s.n][i % s.n], w[i])) same_view = false;
        }
        M.ev("wake_values_compared", (long)ref.size());
        M.ev("fields_checked");
        if (s.N & (s.N - 1)) M.ev("non_power_of_two_lengths");
        if (!M.within("wake_err_over_max", worst / wmax, 1e-5) || !same_view) {
            vh::J d; d.s("setup", s.descr()).i("index", (long)wi).n("got", w[wi]).n("want", ref[wi]).n("max_abs_wake", wmax).i("views_agree", same_view);
            M.violation(std::string("C06:convolution") + (s.nb > 1 ? ":multibunch" : ":single") + (history ? ":after_other_requests" : ""), "wake potential differs from the direct DFT convolution with the impedance", d.str());
        }
        if (std::fabs((double)ef.getWakeScaling() - scale) > 1e-5 * std::fabs(scale)) {
            vh::J d; d.n("got", ef.getWakeScaling()).n("want", scale);
            M.violation("C06:scaling", "wake scaling differs from Ib*dt*c/(sigma_z*dE_cell)/N", d.str());
        }
        M.sig(vh::hmix(vh::hmix(s.N, s.n * 8 + s.nb), vh::hdata(rho.data(), 8 * std::min<size_t>(rho.size(), 64))));
        { vh::J j; j.s("class", "c06").s("setup", s.descr()).i("profile_flavour", flavour).n("rel_err", worst / wmax); M.sample(j.str()); }
    }
}

static void fill_passive(Rng& r, Setup& s, int model, std::string& name) {
    s.Z.assign(s.N, {0, 0});
    double fmax = r.logu(1e11, 1e13), frev = r.logu(1e5, 1e7);
    std::unique_ptr<Impedance> imp;
    switch (model) {
    case 0: name = "random"; for (size_t k = 0; k <= s.N / 2; k++) s.Z[k] = {(float)r.uni(0, 1), (float)r.uni(-1, 1)};
            // like an impedance file that is longer than half the frequency grid: passive values above N/2 too; neither the wake nor the
            // spectrum may see them (C06: "sees only the non-negative-frequency half")
            if (r.chance(0.5)) { name = "random+upper"; for (size_t k = s.N / 2 + 1; k < s.N; k++) s.Z[k] = {(float)r.uni(0, 1), (float)r.uni(-1, 1)}; }
            return;
    case 1: name = "freespace"; imp.reset(new FreeSpaceCSR(s.N, (frequency_t)frev, (frequency_t)fmax)); break;
    case 2: name = "parallelplates"; imp.reset(new ParallelPlatesCSR(s.N, (frequency_t)frev, (frequency_t)fmax, r.uni(0.01, 0.1))); break;
    case 3: name = "resistivewall"; imp.reset(new ResistiveWall(s.N, (frequency_t)frev, (frequency_t)fmax, physcons::c / frev, r.logu(1e5, 1e8), 0, r.uni(0.005, 0.05))); break;
    case 4: name = "collimator"; imp.reset(new CollimatorImpedance(s.N, (frequency_t)fmax, 0.02, r.uni(0.001, 0.019))); break;
    default: {
        // what the program's factory hands out for a random combination of options (collimator openings from far
        // narrower to far wider than the chamber, with and without wall, shielded or free-space CSR)
        name = "factory";
        double gap = r.uni(0.01, 0.1) * ((s.N > 600 || r.chance(0.4)) ? -1 : 1);
        double inner = r.chance(0.2) ? 0 : r.uni(0.05, 2.5) * std::fabs(gap);
        double sig = r.chance(0.5) ? r.logu(1e5, 1e8) : 0, xi = r.chance(0.5) ? 0 : r.uni(0, 3);
        auto z = makeImpedance(s.N, nullptr, (frequency_t)fmax, r.logu(1, 30), (frequency_t)frev, gap, true, sig, xi, inner, "");
        for (size_t k = 0; k < s.N; k++) s.Z[k] = z->impedance()[k];
        return; }
    }
    for (size_t k = 0; k < s.N; k++) s.Z[k] = imp->impedance()[k];
}

static void mode_c07() {
    for (long c = M.from; c < M.from + M.count; c++) {
        Rng r(M.seed, c, 71);
        Setup s = gen_setup(r, true, M.thorough());
        if ((c / 7) % 3 == 1) {
            // one bunch, but not in the first bucket of the buffer (e.g. filling {1,0}): power and wake loss must not care
            uint32_t bk = (uint32_t)r.range(1, 3);
            s.buckets = {bk}; s.spacing = s.n + (uint32_t)r.range(0, s.n);
            size_t need = (size_t)bk * s.spacing + s.n;
            if (s.N < need) s.N = pick_length(r, need, M.thorough());
        }
        int model = (int)(c % 5);
        if (c % 11 == 10) model = 5;              // impedance from the program's factory
        if (model == 2 && s.N > 600) s.N = 256;   // Airy sums are slow
        if (s.N < s.n) s.N = 64;
        if (s.N < (size_t)s.buckets[0] * s.spacing + s.n) { s.buckets = {0}; s.spacing = 0; }   // (offset bunch does not fit the shortened buffer)
        std::string mname;
        fill_passive(r, s, model, mname);
        bool zero_exempt = (c / 5) % 3 != 0;      // two thirds: Z0 = Z_top = 0 -> relation must be tight
        if (zero_exempt) { s.Z[0] = 0; s.Z[s.N / 2] = 0; }
        double cutoff = (c / 15) % 2 ? r.logu(1e9, 1e12) : 0;
        M.begin_case(c, "c07 " + mname + " " + s.descr());
        auto ps = make_grid(s);
        std::vector<double> rho;
        int flavour = (int)r.range(0, 3);
        set_profiles(r, ps, s, rho, flavour);
        // one case in eight: the field is built on an all-zero impedance object which is completed afterwards through the shared pointer
        // (operator+=, as the repository's own forward_wake test does): spectrum and wake must both see the impedance as it is when asked
        bool late = (c % 8 == 5);
        auto imp = late ? std::make_shared<Impedance>(std::vector<impedance_t>(s.N, impedance_t(0, 0)), (frequency_t)1e12)
                        : std::make_shared<Impedance>(s.Z, (frequency_t)1e12);
        ElectricField ef(ps, imp, s.buckets, s.spacing, nullptr, s.frev, (meshaxis_t)s.revpart, s.Ib, s.E0, s.sE, s.dt);
        if (late) {
            if (r.chance(0.5)) { ef.updateCSR(0); ef.wakePotential(); }          // ... also after the field has already been used
            Impedance rest(s.Z, (frequency_t)1e12); (*imp) += rest; M.ev("impedance_completed_after_field_construction");
        }
        bool wake_first = (c / 3) % 2 == 1;        // the same object is asked for the wake before / after the spectrum
        if (wake_first) { ef.wakePotential(); M.ev("wake_requested_before_spectrum"); }
        // the same object may have been asked for the spectrum behind a beam-line cutoff before: "cutoff disabled" must mean disabled
        bool cut_first = cutoff > 0 && (c / 30) % 2 == 1;
        if (cut_first) { ef.updateCSR((frequency_t)cutoff); M.ev("cutoff_requested_before_disabled"); }
        ef.updateCSR(0);
        double P = ef.getCSRPower()[0];
        std::vector<double> S(ef.getCSRSpectrum(), ef.getCSRSpectrum() + s.N);
        const meshaxis_t* w = ef.wakePotential();
        double ws = ef.getWakeScaling();
        double df = ef.getFreqRuler()->delta(), dq2 = (double)ps->getDelta(0) * (double)ps->getDelta(0);
        double rhoW = 0, rhoWabs = 0;
        { double wmx = 0, rs = 0; for (uint32_t x = 0; x < s.n; x++) { rhoW += rho[x] * ((double)w[x] / ws); wmx = std::max(wmx, std::fabs((double)w[x] / ws)); rs += std::fabs(rho[x]); }
          rhoWabs = wmx * rs; }   // FFT error is relative to max|W|, not to the local value
        Setup s0 = s; s0.buckets = {0}; s0.spacing = 0;      // |F|^2 does not depend on where the bunch sits
        auto F = dft_train(s0, rho, s.N / 2);
        double ex0 = 0.5 * std::fabs((double)s.Z[0].real()) * std::norm(F[0]);
        double extop = std::fabs((double)s.Z[s.N / 2].real()) * std::norm(F[s.N / 2]);
        double refsum = 0;
        for (size_t k = 0; k <= s.N / 2; k++) refsum += (double)s.Z[k].real() * std::norm(F[k]);
        double lhs = P / (df * dq2);
        double round_tol = (1e-5 + 0.25 * s.N * 5.96e-8) * (std::fabs(refsum) + rhoWabs) + 1e-30;
        M.ev("fields_checked");
        M.ev(std::string("model.") + mname);
        bool okp = M.within("parseval_excess_over_tol", std::max(0.0, std::fabs(lhs - 0.5 * rhoW) - ex0 - extop) / round_tol, 1.0);
        bool okr = M.within("power_vs_reference", std::fabs(lhs - refsum) / round_tol, 1.0);
        if (!okp || !okr) {
            vh::J d; d.s("model", mname).s("setup", s.descr()).n("P_over_df_dq2", lhs).n("half_rho_W", 0.5 * rhoW).n("reference", refsum).n("exempt0", ex0).n("exempt_top", extop).i("zero_exempt", zero_exempt);
            M.violation(std::string("C07:parseval") + (zero_exempt ? ":tight" : ":with_exempt_terms"), "CSR power from the spectrum differs from half the profile-weighted wake (Parseval)", d.str());
        }
        bool neg = false; double minS = 0;
        for (size_t k = 0; k < s.N; k++) if (S[k] < 0 || std::isnan(S[k])) { neg = true; minS = S[k]; }
        if (neg || P < 0 || std::isnan(P) || rhoW < -round_tol - 2 * ex0) {
            vh::J d; d.s("model", mname).s("setup", s.descr()).n("P", P).n("min_spectrum", minS).n("rho_W", rhoW);
            M.violation("C07:sign:" + mname, "CSR spectrum / power / wake loss negative for a passive impedance", d.str());
        }
        // spectrum sums to the power
        double ssum = 0; for (size_t k = 0; k < s.N; k++) ssum += S[k];
        if (!M.within("power_is_sum_of_spectrum", std::fabs(P - df * ssum) / ((2e-5 + s.N * 5.96e-8) * std::fabs(P) + 1e-30), 1.0)) {
            vh::J d; d.n("P", P).n("df_sum", df * ssum);
            M.violation("C07:power_sum", "CSR power is not delta_f times the sum of the spectrum", d.str());
        }
        if (cutoff > 0) {
            ef.updateCSR((frequency_t)cutoff);
            double Pc = ef.getCSRPower()[0];
            bool negc = false; for (size_t k = 0; k < s.N; k++) if (ef.getCSRSpectrum()[k] < 0) negc = true;
            M.ev("cutoff_cases");
            if (!(Pc >= 0) || !(Pc <= P * (1 + 1e-6) + 1e-30) || negc) {
                vh::J d; d.s("model", mname).n("P", P).n("P_cutoff", Pc).n("cutoff", cutoff);
                M.violation("C07:cutoff", "with a cutoff frequency the CSR power is not within [0, power without cutoff]", d.str());
            }
            // ... and with another cutoff afterwards the power orders with the cutoffs; disabling it again gives the first result
            double cut2 = cutoff * r.logu(2, 30) , Pc2;
            ef.updateCSR((frequency_t)cut2); Pc2 = ef.getCSRPower()[0];
            ef.updateCSR(0);
            double P2 = ef.getCSRPower()[0];
            if (!(Pc2 <= Pc * (1 + 1e-6) + 1e-30) || !vh::bits_equal((float)P2, (float)P)) {
                vh::J d; d.s("model", mname).n("P", P).n("P_again_without_cutoff", P2).n("P_cutoff", Pc).n("P_higher_cutoff", Pc2).n("cutoff", cutoff).n("higher_cutoff", cut2);
                M.violation("C07:cutoff:sticky", "CSR power does not follow the cutoff of the current request (higher cutoff must not give more power; cutoff disabled again must give the original power)", d.str());
            }
        }
        M.sig(vh::hmix(vh::hmix(s.N, s.n * 8 + model), vh::hdata(rho.data(), 8 * std::min<size_t>(rho.size(), 64))));
        { vh::J j; j.s("class", "c07").s("model", mname).s("setup", s.descr()).n("P_norm", lhs).n("half_rho_W", 0.5 * rhoW).i("zero_exempt", zero_exempt); M.sample(j.str()); }
    }
}

// per-bunch CSR spectrum and power of a train (radiation field as main() builds it: no spacing, CSR-only constructor)
static void mode_c07mb() {
    for (long c = M.from; c < M.from + M.count; c++) {
        Rng r(M.seed, c, 72);
        Setup s = gen_setup(r, false, M.thorough());
        if (s.nb < 2) s.nb = 2 + (uint32_t)r.range(0, 2);
        // every other case keeps the train's spacing and asks the same field object for the wake potential first (one object serving both
        // requests, the last one before the spectrum being the wake of the whole train); the others are the radiation field as main() builds it
        uint32_t maxbucket = 0; for (auto bk : s.buckets) maxbucket = std::max<uint32_t>(maxbucket, bk);
        const bool wake_before = ((c / 2) % 2 == 1) && s.spacing > 0 && s.buckets.size() == s.nb && s.N >= (size_t)maxbucket * s.spacing + s.n;
        if (!wake_before) {
        s.buckets.clear(); for (uint32_t b = 0; b < s.nb; b++) s.buckets.push_back(s.nb - 1 - b);
        s.spacing = 0;
        s.N = pick_length(r, s.n, M.thorough());
        }
        int model = (c % 11 == 10) ? 5 : (int)(c % 5);
        if (model == 2 && s.N > 600) { if (wake_before) model = 0; else s.N = 256; }      // (Airy sums are slow; the train's own length is kept when its wake is requested)
        std::string mname; fill_passive(r, s, model, mname);
        double cutoff = (c / 5) % 2 ? r.logu(1e9, 1e12) : 0;
        M.begin_case(c, "c07mb " + mname + " " + s.descr());
        auto ps = make_grid(s);
        std::vector<double> rho; int flavour = (int)r.range(0, 3);
        set_profiles(r, ps, s, rho, flavour);
        // half of those trains are uniform (every bunch the same profile, as at the start of a run with equal currents)
        if (wake_before && (c / 4) % 2 == 1) {
            for (uint32_t b = 1; b < s.nb; b++) std::copy(rho.begin(), rho.begin() + s.n, rho.begin() + (size_t)b * s.n);
            for (uint32_t b = 0; b < s.nb; b++) { boost::multi_array<projection_t, 1> p(boost::extents[s.n]); for (uint32_t x = 0; x < s.n; x++) p[x] = (float)rho[(size_t)b * s.n + x]; ps->setProjection(0, b, p); }
            M.ev("uniform_trains_with_wake_before_spectrum");
        }
        auto imp = std::make_shared<Impedance>(s.Z, (frequency_t)1e12);
        std::unique_ptr<ElectricField> efp(wake_before ? new ElectricField(ps, imp, s.buckets, s.spacing, nullptr, s.frev, (meshaxis_t)s.revpart, s.Ib, s.E0, s.sE, s.dt)
                                                       : new ElectricField(ps, imp, s.buckets, 0, nullptr, s.frev, (meshaxis_t)s.revpart));
        ElectricField& ef = *efp;
        if (wake_before) { ef.wakePotential(); M.ev("train_spectra_requested_right_after_the_trains_wake"); }
        ef.updateCSR((frequency_t)cutoff);
        double df = ef.getFreqRuler()->delta(), dq2 = (double)ps->getDelta(0) * (double)ps->getDelta(0), hz = ef.getFreqRuler()->scale("Hertz");
        for (uint32_t b = 0; b < s.nb; b++) {
            Setup s1 = s; s1.nb = 1; s1.buckets = {0};
            std::vector<double> rb(rho.begin() + (size_t)b * s.n, rho.begin() + (size_t)(b + 1) * s.n);
            auto F = dft_train(s1, rb, s.N / 2);
            const csrpower_t* S = ef.getCSRSpectrum() + (size_t)b * s.N;
            double ref = 0, smax = 0, worst = 0; size_t wk = 0;
            std::vector<double> want(s.N, 0.0);
            for (size_t k = 0; k <= s.N / 2; k++) {
                double cut = 1; if (cutoff > 0) { double x = hz * (double)(*ef.getFreqRuler())[k] / (double)(float)cutoff; cut = 1 - std::exp(-x * x); }
                want[k] = dq2 * cut * (double)s.Z[k].real() * std::norm(F[k]); ref += want[k]; smax = std::max(smax, want[k]);
            }
            // single-precision FFT: every form-factor sample carries an absolute error of a few 1e-7 of the largest one
            double Fmax = 0; for (size_t k = 0; k <= s.N / 2; k++) Fmax = std::max(Fmax, std::abs(F[k]));
            double epsF = 6e-7 * Fmax * std::log2((double)s.N), tolsum = 0;
            for (size_t k = 0; k < s.N; k++) {
                double cutk = (k <= s.N / 2 && std::norm(F[k]) > 0) ? want[k] / std::norm(F[k]) : (k <= s.N / 2 ? dq2 * (double)s.Z[k].real() : 0.0);   // dq2*cut*ReZ
                double tolk = cutk * (2 * epsF * (k <= s.N / 2 ? std::abs(F[k]) : 0.0) + epsF * epsF) + 4e-6 * want[k] + 1e-36;   // (+ single-precision underflow floor)
                tolsum += tolk;
                double e = std::fabs((double)S[k] - want[k]) / tolk; if (e > worst) { worst = e; wk = k; }
            }
            double P = ef.getCSRPower()[b];
            M.ev("bunch_spectra_checked");
            bool ok1 = M.within("mb.spectrum_err_over_tol", worst, 1.0);
            bool ok2 = M.within("mb.power_vs_reference", std::fabs(P - df * ref) / ((2e-5 + s.N * 5.96e-8) * std::fabs(df * ref) + df * tolsum + 1e-300), 1.0);
            bool neg = false; for (size_t k = 0; k < s.N; k++) if (S[k] < 0) neg = true;
            if (!ok1 || !ok2 || neg || P < 0) {
                vh::J d; d.s("model", mname).s("setup", s.descr()).i("bunch", b).n("power", P).n("df_sum_reference_spectrum", df * ref).n("worst_spectrum_err", worst).i("at", (long)wk).n("cutoff", cutoff).i("negative", neg).n("got_at", S[wk]).n("want_at", want[wk]).n("smax", smax).n("reZ_at", s.Z[wk].real()).n("F2_at", wk <= s.N / 2 ? std::norm(F[wk]) : 0.0);
                M.violation(std::string("C07:train:") + (ok1 ? (ok2 ? "sign" : "power") : "spectrum") + (b > 0 ? ":bunch>0" : ":bunch0"),
                            "per-bunch CSR spectrum/power of a train is not dq^2*Re Z*|form factor|^2 (resp. its sum times delta_f)", d.str());
            }
        }
        M.sig(vh::hmix(vh::hmix(s.N, s.n * 8 + s.nb), vh::hdata(rho.data(), 8 * std::min<size_t>(rho.size(), 64))));
        { vh::J j; j.s("class", "c07mb").s("model", mname).s("setup", s.descr()); M.sample(j.str()); }
    }
}

int main(int argc, char** argv) {
    M.parse(argc, argv);
    std::string mode = M.opt("--mode", "c06");
    if (mode == "c07mb") { mode_c07mb(); M.finish(); return 0; }
    if (mode == "warm") {
        // create FFT wisdom for the lengths [from, from+count) of the table (one process per length)
        auto v = all_lengths(M.thorough());
        for (long i = M.from; i < M.from + M.count && i < (long)v.size(); i++) {
            Setup s; s.n = 8; s.nb = 1; s.buckets = {0}; s.spacing = 0; s.N = v[i];
            s.Ib = 1e-3; s.E0 = 1e9; s.sE = 1e-3; s.dt = 1e-9; s.frev = 1e6; s.revpart = 1e-3; s.L = 12;
            s.Z.assign(s.N, {1, 0});
            auto ps = make_grid(s);
            auto imp = std::make_shared<Impedance>(s.Z, (frequency_t)1e12);
            ElectricField ef(ps, imp, s.buckets, s.spacing, nullptr, s.frev, (meshaxis_t)s.revpart, s.Ib, s.E0, s.sE, s.dt);
            ef.wakePotential();
            M.cases++; M.ev("lengths_planned"); M.distinct_extra++;
        }
        M.finish();
        return 0;
    }
    if (mode == "lengths") { for (size_t n : all_lengths(M.thorough())) printf("L %zu\n", n); return 0; }
    if (mode == "c06") mode_c06(); else mode_c07();
    M.finish();
    return 0;
}
