// C17 in-process fuzz targets (libFuzzer + ASan + UBSan, clang): "arbitrary contents of the input files".
// The real readers and the code that consumes what they return are driven with coverage-guided
// inputs; the oracle is the sanitizer runtime (any report aborts the process and is routed as a
// violation by checks/c17.py).  Target chosen by INOVESA_FUZZ_TARGET:
//   imp : bytes -> impedance file -> vfps::makeImpedance(...) as main() calls it (file alone or added to
//         models, transform length from the input) -> wake ElectricField -> wakePotential(), updateCSR()
//         (these index the impedance up to half the transform length: a table that is shorter than it
//         claims is read past its end here), operator+= with a model of another length
//   txt : bytes -> text start distribution -> makePSFromTXT(...) -> projections, integral, moments
//   cfg : bytes -> configuration file -> ProgramOptions::parse(--config file) -> every getter, save()
// First two bytes of the input select parameters, the rest is the file content.
#define INOVESA_ALLOW_PS_RESET 1
#include <cstdint>
#include <cstdio>
#include <cstdlib>
#include <cstring>
#include <string>
#include <vector>
#include <memory>
#include <unistd.h>

#include "defines.hpp"
#include "IO/Display.hpp"
#include "IO/ProgramOptions.hpp"
#include "PS/PhaseSpace.hpp"
#include "PS/PhaseSpaceFactory.hpp"
#include "PS/ElectricField.hpp"
#include "Z/Impedance.hpp"
#include "Z/ImpedanceFactory.hpp"
#include "Z/ConstImpedance.hpp"

using namespace vfps;

static int target = -1;
static std::string fname;
static unsigned long n_exec = 0, n_parsed = 0, n_consumed = 0;

static void init() {
    const char* t = getenv("INOVESA_FUZZ_TARGET");
    std::string s = t ? t : "imp";
    target = (s == "imp") ? 0 : (s == "txt") ? 1 : 2;
    char buf[256];
    snprintf(buf, sizeof buf, "fuzz-input-%d.%s", (int)getpid(), target == 0 ? "dat" : target == 1 ? "txt" : "cfg");
    fname = buf;
    Display::silent_mode = true;
    atexit([] {
        fprintf(stderr, "FUZZSTAT target=%d executed=%lu reader_returned_data=%lu consumed=%lu\n", target, n_exec, n_parsed, n_consumed);
        unlink(fname.c_str());
    });
}

static void put(const uint8_t* d, size_t n) {
    FILE* f = fopen(fname.c_str(), "wb");
    if (!f) abort();
    if (n) fwrite(d, 1, n, f);
    fclose(f);
}

static volatile float sink;

static void t_imp(uint8_t p0, uint8_t p1, const uint8_t* d, size_t n) {
    static const size_t Ns[] = {32, 33, 64, 100, 128, 254};
    const size_t N = Ns[p0 % 6];
    const uint32_t g = 16;
    put(d, n);
    // which contributions besides the file: none, parallel plates, free space, wall, collimator
    const int kind = p1 % 6;
    double gap = 0, s = 0, coll = 0; bool csr = false;
    if (kind == 1) { gap = 0.032; csr = true; }
    if (kind == 2) { gap = -1; csr = true; }
    if (kind == 3) { gap = 0.032; s = 5e7; }
    if (kind == 4) { gap = 0.032; coll = 0.005; }
    if (kind == 5) { gap = 0.032; csr = true; s = 5e7; coll = 0.004; }
    std::shared_ptr<Impedance> z = makeImpedance(N, nullptr, 1e12, 5.559, 2.7e6, gap, csr, s, 0, coll, fname);
    if (!z) return;
    for (size_t i = 0; i < z->nFreqs(); i++) sink = (*z)[i].real();
    {   // a file impedance of its own, added to models of other lengths (both directions)
        Impedance a(fname, 1e12);
        if (a.nFreqs() > 0) n_parsed++;
        ConstImpedance c((p1 & 64) ? N / 2 + 1 : 2 * N + 3, 1e12, impedance_t(1, -1));
        Impedance b(c);
        b += a; a += c;
        for (size_t i = 0; i < a.nFreqs(); i++) sink = a[i].imag();
        for (size_t i = 0; i < b.nFreqs(); i++) sink = b[i].imag();
    }
    PhaseSpace::resetSize(g, 1);
    std::vector<integral_t> fill(1, 1.0f);
    auto ps = std::make_shared<PhaseSpace>(-6.f, 6.f, 2.3e-3, -6.f, 6.f, 6e5, nullptr, 1e-10, 1e-3, fill, 1.0, nullptr);
    ps->updateXProjection();
    std::vector<uint32_t> buckets(1, 0);
    ElectricField wf(ps, z, buckets, 0, nullptr, 2.7e6, (meshaxis_t)1e-3, 1e-3, 1.3e9, 4.7e-4, 1e-9);
    const meshaxis_t* w = wf.wakePotential();
    for (uint32_t x = 0; x < g; x++) sink = w[x];
    ElectricField rf(ps, z, buckets, 0, nullptr, 2.7e6, (meshaxis_t)1e-3);
    rf.updateCSR((p1 & 128) ? 2e10 : 0);
    sink = rf.getCSRPower()[0];
    for (size_t i = 0; i < rf.getNMax() / 2; i++) sink = rf.getCSRSpectrum()[i];
    n_consumed++;
}

static void t_txt(uint8_t p0, uint8_t p1, const uint8_t* d, size_t n) {
    static const int64_t Gs[] = {4, 5, 8, 16, 17, 32};
    const int64_t g = Gs[p0 % 6];
    put(d, n);
    const float ext = (p1 & 1) ? 6.f : 3.5f;
    PhaseSpace::resetSize((meshindex_t)g, 1);
    auto ps = makePSFromTXT(fname, g, -ext, ext, -ext, ext, nullptr, 1e-10, 1e-3, 2.3e-3, 6e5);
    if (!ps) return;
    { const meshdata_t* v = ps->getData(); for (int64_t i = 0; i < g * g; i++) if (v[i] != 0) { n_parsed++; break; } }
    ps->updateXProjection(); ps->updateYProjection(); ps->integrate(); ps->average(0); ps->average(1); ps->variance(0); ps->variance(1);
    sink = ps->getBunchLength()[0]; sink = ps->getEnergySpread()[0]; sink = ps->getIntegral();
    const meshdata_t* v = ps->getData();
    float acc = 0; for (int64_t i = 0; i < g * g; i++) acc += v[i];
    sink = acc;
    n_consumed++;
}

static void t_cfg(uint8_t, uint8_t, const uint8_t* d, size_t n) {
    put(d, n);
    ProgramOptions o;
    std::string a0 = "inovesa", a1 = "--config", a2 = fname;
    char* argv[] = {&a0[0], &a1[0], &a2[0], nullptr};
    bool ok = false;
    try { ok = o.parse(3, argv); } catch (const std::exception&) { return; } catch (...) { return; }
    n_parsed++;
    if (!ok) return;
    sink = (float)o.getGridSize(); sink = (float)o.getStepsPerTsync(); sink = (float)o.getNRotations(); sink = (float)o.getOutSteps();
    sink = (float)o.getBunchCurrents().size(); sink = (float)o.getAlpha0(); sink = (float)o.getSyncFreq(); sink = (float)o.getPadding();
    std::string out = fname + ".saved";
    try { o.save(out); } catch (...) {}
    unlink(out.c_str());
    n_consumed++;
}

extern "C" int LLVMFuzzerTestOneInput(const uint8_t* data, size_t size) {
    if (target < 0) init();
    n_exec++;
    uint8_t p0 = size > 0 ? data[0] : 0, p1 = size > 1 ? data[1] : 0;
    const uint8_t* d = size > 2 ? data + 2 : data; size_t n = size > 2 ? size - 2 : 0;
    try {
        if (target == 0) t_imp(p0, p1, d, n);
        else if (target == 1) t_txt(p0, p1, d, n);
        else t_cfg(p0, p1, d, n);
    } catch (const std::exception&) {
        // a refusal by exception is "stops with a message" at program level, not a memory error
    }
    return 0;
}
