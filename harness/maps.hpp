// Shared generators for the map-level monitors (C01, C08, C15): grids, displacement
// fields, the real maps with random parameters, interior-supported data.
#pragma once
#include "common.hpp"
#include <limits>
#include "SM/KickMap.hpp"
#include "SM/RFKickMap.hpp"
#include "SM/DynamicRFKickMap.hpp"
#include "SM/DriftMap.hpp"
#include "SM/FokkerPlanckMap.hpp"
#include "SM/Identity.hpp"
#include "SM/WakePotentialMap.hpp"
#include "PS/ElectricField.hpp"
#include "Z/Impedance.hpp"

namespace vm {

// A history for a kick map: the wanted table, then a table in which every third row is not representable on the grid (displacement of
// several grid lengths, or NaN - a row without charge may carry anything), then the wanted table again.  What the map does afterwards
// must be what a freshly built map does with the wanted table.
template <class KM> inline void kick_history_through_far_offsets(KM& km, const std::vector<vfps::meshaxis_t>& want, uint32_t n, uint64_t salt) {
    std::vector<vfps::meshaxis_t> a = want; km.swapOffset(a);
    std::vector<vfps::meshaxis_t> far = want;
    for (size_t i = salt % 3; i < far.size(); i += 3) far[i] = ((i + salt) % 2) ? std::numeric_limits<vfps::meshaxis_t>::quiet_NaN() : (vfps::meshaxis_t)(((i + salt) % 4 < 2 ? 3.0 : -2.5) * n);
    km.swapOffset(far);
}

using namespace vfps;
using vh::Rng;

enum Kind { K_KICKX = 0, K_KICKY, K_RF_LIN, K_RF_SIN, K_DRIFT, K_WAKE, K_FP, K_IDENT, K_NKINDS };
static const char* KNAME[] = {"kick_x", "kick_y", "rf_linear", "rf_sinus", "drift", "wake", "fokker_planck", "identity"};

struct Spec {
    int empty_bucket = -1;   // >= 0: that bucket of the train is declared empty in the filling pattern (its cells are data like any other)
    bool clamp = false;   // InterpolateClamped (a limiter where implemented; the self-consistency checks C08 must hold with it too)
    Kind kind = K_KICKX;
    uint32_t n = 32, nb = 1;
    int it = 4;                 // interpolation order
    double shiftx = 0, shifty = 0;   // grid shift in cells (fractional zero bins)
    double pqsize = 12;
    // generic kick: offset field (size n*nb), already in cells
    std::vector<float> off;
    // rf linear
    double angle = 0.01;
    // rf sinus
    double revpart = 1e-3, V = 1e6, V0 = 1e4, fRF = 5e8;
    // drift
    std::vector<float> slip; double E0 = 1.3e9;
    // fp
    int fptype = 3, deriv = 4; double e1 = 1e-3;
    // wake
    size_t nmax = 256; uint32_t spacing = 0; std::vector<uint32_t> buckets; std::vector<std::complex<float>> Z;
    double Ib = 1e-3, sE = 4.7e-4, dt = 1e-9, frev = 9e6;
    double qscale = 1e-3, pscale = 6.11e5;
    std::string descr() const {
        std::ostringstream o;
        o << KNAME[kind] << " n=" << n << " nb=" << nb << " it=" << it << " shift=(" << shiftx << "," << shifty << ")";
        if (kind == K_FP) o << " fptype=" << fptype << " deriv=" << deriv << " e1=" << e1;
        if (kind == K_RF_LIN) o << " angle=" << angle;
        if (kind == K_WAKE) o << " nmax=" << nmax << " spacing=" << spacing;
        return o.str();
    }
};

struct Built {
    std::shared_ptr<PhaseSpace> in, out;
    std::shared_ptr<Impedance> imp;
    std::unique_ptr<ElectricField> field;
    std::unique_ptr<SourceMap> map;
    KickMap* kick = nullptr;       // non-null for KickMap descendants
    WakePotentialMap* wake = nullptr;
    bool kick_along_x = false;     // displacement moves charge along x (true) or y
};

inline std::shared_ptr<PhaseSpace> grid_for(const Spec& s, const std::vector<integral_t>& filling) {
    double d = s.pqsize / (s.n - 1);
    double qc = -s.shiftx * d, pc = -s.shifty * d;
    return std::make_shared<PhaseSpace>((meshaxis_t)(qc - s.pqsize / 2), (meshaxis_t)(qc + s.pqsize / 2), s.qscale,
                                        (meshaxis_t)(pc - s.pqsize / 2), (meshaxis_t)(pc + s.pqsize / 2), s.pscale,
                                        nullptr, 1e-10, s.Ib, filling, 1.0, nullptr);
}

inline std::vector<integral_t> filling_for(uint32_t nb) {
    std::vector<integral_t> f(nb);
    for (uint32_t b = 0; b < nb; b++) f[b] = 1.0f / nb;
    return f;
}

// Build the real map for the *current* static grid size (caller did set_grid(s.n, nb)).
inline Built build(const Spec& s, uint32_t nb_now) {
    Built b;
    auto fill = filling_for(nb_now);
    if (s.empty_bucket >= 0 && (uint32_t)s.empty_bucket < nb_now && nb_now > 1) { fill[s.empty_bucket] = 0; for (auto& f : fill) if (f > 0) f = 1.0f / (nb_now - 1); }
    b.in = grid_for(s, fill);
    b.out = grid_for(s, fill);
    auto it = (SourceMap::InterpolationType)s.it;
    switch (s.kind) {
    case K_KICKX: case K_KICKY: {
        auto* k = new KickMap(b.in, b.out, it, s.clamp, s.kind == K_KICKX ? KickMap::Axis::x : KickMap::Axis::y, nullptr);
        b.map.reset(k); b.kick = k; b.kick_along_x = (s.kind == K_KICKX);
        break; }
    case K_RF_LIN: {
        auto* k = new RFKickMap(b.in, b.out, (meshaxis_t)s.angle, (frequency_t)s.fRF, it, s.clamp, nullptr);
        b.map.reset(k); b.kick = k; break; }
    case K_RF_SIN: {
        auto* k = new RFKickMap(b.in, b.out, (timeaxis_t)s.revpart, (meshaxis_t)s.V, (frequency_t)s.fRF, (meshaxis_t)s.V0, it, s.clamp, nullptr);
        b.map.reset(k); b.kick = k; break; }
    case K_DRIFT: {
        auto* k = new DriftMap(b.in, b.out, s.slip, (meshaxis_t)s.E0, it, s.clamp, nullptr);
        b.map.reset(k); b.kick = k; b.kick_along_x = true; break; }
    case K_WAKE: {
        b.imp = std::make_shared<Impedance>(s.Z, (frequency_t)1e12);
        b.field.reset(new ElectricField(b.in, b.imp, s.buckets, s.spacing, nullptr, s.frev, (meshaxis_t)(s.frev * s.dt),
                                        s.Ib, s.E0, s.sE, s.dt));
        auto* k = new WakePotentialMap(b.in, b.out, b.field.get(), it, s.clamp, nullptr);
        b.map.reset(k); b.kick = k; b.wake = k; break; }
    case K_FP: {
        b.map.reset(new FokkerPlanckMap(b.in, b.out, s.n, s.n, (FokkerPlanckMap::FPType)s.fptype,
                                        FokkerPlanckMap::FPTracking::none, (timeaxis_t)s.e1,
                                        (FokkerPlanckMap::DerivationType)s.deriv, nullptr));
        break; }
    case K_IDENT: default:
        b.map.reset(new Identity(b.in, b.out, nullptr)); break;
    }
    return b;
}

// displacement-field generators (cells); amp = maximum magnitude
inline std::vector<float> gen_field(Rng& r, uint32_t n, double amp, int flavour) {
    std::vector<float> f(n);
    double a = r.uni(-amp, amp), b = r.uni(0, 6.283), k1 = r.range(1, 3), k2 = r.range(2, 7);
    for (uint32_t i = 0; i < n; i++) {
        double t = (i - n / 2.0) / (n / 2.0), v;
        switch (flavour) {
        case 0: v = a; break;                                        // constant
        case 1: v = a * t; break;                                    // linear (RF like)
        case 2: v = amp * 0.5 * (std::sin(k1 * 3.14159 * t + b) + 0.7 * std::cos(k2 * 3.14159 * t)) / 1.7 * 2; break;   // smooth
        case 3: v = r.uni(-amp, amp); break;                         // per-row independent
        case 4: v = std::round(r.uni(-amp, amp)); break;             // whole-cell per row
        default: v = (r.chance(0.5) ? 1 : -1) * amp * (1 - 1e-3 * r.uni()); break;  // near the maximum, either sign
        }
        if (v > amp) v = amp; if (v < -amp) v = -amp;
        f[i] = (float)v;
    }
    return f;
}

// data with support inside [m, n-1-m]^2 for every bunch; flavour: 0 blobs (>=0), 1 signed noise, 2 single cells
inline void fill_data(Rng& r, float* data, uint32_t n, uint32_t nb, uint32_t m, int flavour) {
    std::fill(data, data + (size_t)nb * n * n, 0.0f);
    if (2 * m + 1 > n) return;
    for (uint32_t b = 0; b < nb; b++) {
        float* d = data + (size_t)b * n * n;
        if (flavour == 2) {
            int k = (int)r.range(1, 4);
            for (int i = 0; i < k; i++) {
                uint32_t x = (uint32_t)r.range(m, n - 1 - m), y = (uint32_t)r.range(m, n - 1 - m);
                d[(size_t)x * n + y] = (float)r.uni(-1, 1);
            }
            continue;
        }
        double cx = r.uni(m, n - 1 - m), cy = r.uni(m, n - 1 - m), sx = r.uni(0.7, n / 6.0), sy = r.uni(0.7, n / 6.0);
        double amp = r.logu(1e-3, 1e2);
        for (uint32_t x = m; x + m < n; x++) for (uint32_t y = m; y + m < n; y++) {
            double v;
            if (flavour == 0) v = amp * std::exp(-0.5 * ((x - cx) * (x - cx) / (sx * sx) + (y - cy) * (y - cy) / (sy * sy)));
            else v = amp * r.uni(-1, 1);
            d[(size_t)x * n + y] = (float)v;
        }
    }
}

inline double sum_all(const float* d, size_t n) { double s = 0; for (size_t i = 0; i < n; i++) s += (double)d[i]; return s; }
inline double sum_abs(const float* d, size_t n) { double s = 0; for (size_t i = 0; i < n; i++) s += std::fabs((double)d[i]); return s; }

}  // namespace vm
