// C05 monitor (API complement): the wake potential is copied into the kick map before every
// step.  A WakePotentialMap is driven through a sequence of slowly and quickly changing
// profiles; after every update() the grid it produces must be bit-identical to that of a
// freshly built kick map given the wake potential the field reports for the current profile.
#include "maps.hpp"

using namespace vfps;
using namespace vm;
static vh::Monitor M;

int main(int argc, char** argv) {
    M.parse(argc, argv);
    for (long c = M.from; c < M.from + M.count; c++) {
        Rng r(M.seed, c, 501);
        Spec s; s.kind = K_WAKE;
        s.n = (uint32_t)r.range(24, 96); s.nb = (uint32_t)r.range(1, 2); s.it = 1 + (int)(c % 4);
        // one case in sixteen at scale: kick tables of more than 2048 rows (n * nb), from many bunches or from a fine mesh
        const bool scale = ((c / 4) % 16 == 9);
        if (scale) { static const uint32_t SN[] = {64, 48, 300, 1030, 2100}, SB[] = {40, 48, 8, 3, 1}; const int k = (int)((c / 64) % 5); s.n = SN[k]; s.nb = SB[k]; M.ev("cases_with_kick_tables_beyond_2048_rows"); }
        uint32_t nbuckets = s.nb;
        s.buckets.clear(); for (uint32_t k = 0; k < nbuckets; k++) s.buckets.push_back(nbuckets - 1 - k);
        s.spacing = (nbuckets > 1) ? s.n + (uint32_t)r.range(0, s.n) : 0;
        s.nmax = 64; while (s.nmax < (size_t)(nbuckets - 1) * s.spacing + 2 * s.n) s.nmax *= 2;
        s.Z.resize(s.nmax);
        double zs = r.logu(1e-1, 1e2);
        for (size_t k = 0; k < s.nmax; k++) { double dec = std::exp(-(double)k / (0.1 * s.nmax)); s.Z[k] = {(float)(zs * dec * r.uni(0, 1)), (float)(zs * dec * r.uni(-1, 1))}; }
        M.begin_case(c, "creep " + s.descr());
        vh::set_grid(s.n, s.nb);
        Built b = build(s, s.nb);
        // scale the impedance so that the largest kick is a chosen number of cells, from far below to above one cell
        const double target_kick = std::pow(10.0, r.uni(-5, 0.3));
        {
            float* d0 = b.in->getData();
            for (uint32_t bb = 0; bb < s.nb; bb++) for (uint32_t x = 0; x < s.n; x++) for (uint32_t y = 0; y < s.n; y++)
                d0[bb * (size_t)s.n * s.n + (size_t)x * s.n + y] = (float)std::exp(-0.5 * ((x - 0.5 * s.n) * (x - 0.5 * s.n) + (y - 0.5 * s.n) * (y - 0.5 * s.n)) / ((s.n / 10.0) * (s.n / 10.0)));
            b.in->updateXProjection(); b.wake->update();
            double mx = 0; for (size_t i = 0; i < (size_t)s.n * s.nb; i++) mx = std::max(mx, std::fabs((double)b.kick->getForce()[i]));
            if (mx > 0 && std::isfinite(mx)) { for (auto& z : s.Z) z *= (float)(target_kick / mx); b = build(s, s.nb); }
        }
        auto fresh_in = grid_for(s, filling_for(s.nb)), fresh_out = grid_for(s, filling_for(s.nb));
        const size_t nn = (size_t)s.n * s.n, N = nn * s.nb;
        // per-step relative change of the distribution: from far below single precision resolution of the kick to large
        double rate = std::pow(10.0, r.uni(-9, -2));
        int nsteps = (int)r.range(20, M.thorough() ? 300 : 80);
        if (scale) nsteps = (int)r.range(4, 8);
        std::vector<double> cx(s.nb), cy(s.nb), sg(s.nb), am(s.nb);
        for (uint32_t bb = 0; bb < s.nb; bb++) { cx[bb] = r.uni(0.4, 0.6) * s.n; cy[bb] = r.uni(0.4, 0.6) * s.n; sg[bb] = r.uni(2, s.n / 8.0 + 2); am[bb] = r.uni(0.5, 2); }
        bool bad = false;
        for (int st = 0; st < nsteps && !bad; st++) {
            float* din = b.in->getData();
            for (uint32_t bb = 0; bb < s.nb; bb++) {
                double a = am[bb] * (1 + rate * st), mx = cx[bb] + rate * st * s.n * 0.2;
                const double sgy = std::min(sg[bb], (0.4 * s.n - 5) / 5.5);      // energy profile well inside the grid (centroid oracle below)
                for (uint32_t x = 0; x < s.n; x++) for (uint32_t y = 0; y < s.n; y++)
                    din[bb * nn + (size_t)x * s.n + y] = (float)(a * std::exp(-0.5 * ((x - mx) * (x - mx) / (sg[bb] * sg[bb]) + (y - cy[bb]) * (y - cy[bb]) / (sgy * sgy))));
            }
            if (r.chance(0.05)) rate *= 30;          // occasional jump
            b.in->updateXProjection();
            b.wake->update();
            // one case in five asks for the update a second time with the unchanged profile before the step is applied (a request is
            // idempotent: what is applied afterwards is still the kick of the current profile)
            if (c % 5 == 1) { b.wake->update(); if (st == 0) M.ev("cases_with_repeated_update_requests"); }
            b.map->apply();
            // reference: a fresh kick map given the wake potential of the *current* profile
            std::vector<float> w(b.field->wakePotential(), b.field->wakePotential() + (size_t)s.n * s.nb);
            std::vector<float> forces(b.kick->getForce(), b.kick->getForce() + (size_t)s.n * s.nb);
            bool force_ok = true;
            for (size_t i = 0; i < w.size(); i++) if (!vh::bits_equal(w[i], forces[i])) force_ok = false;
            KickMap fresh(fresh_in, fresh_out, (SourceMap::InterpolationType)s.it, false, KickMap::Axis::y, nullptr);
            std::copy(din, din + N, fresh_in->getData());
            fresh.swapOffset(w);
            fresh.apply();
            long diff = 0; size_t first = 0;
            for (size_t i = 0; i < N; i++) if (!vh::bits_equal(fresh_out->getData()[i], b.out->getData()[i])) { if (!diff) first = i; diff++; }
            M.ev("updates_checked");
            // (2) the charge receives the recorded wake: the energy centroid of each bunch moves by minus the profile-weighted mean of
            // the recorded wake potential (orders >= 2 keep the first moment; bunches whose charge comes near the energy border are skipped)
            if (s.it >= 2 && !bad) for (uint32_t bb = 0; bb < s.nb; bb++) {
                double Q = 0, M0 = 0, E = 0, Qo = 0, M1 = 0, edge = 0, wmx = 0;
                for (uint32_t x = 0; x < s.n; x++) wmx = std::max(wmx, std::fabs((double)forces[bb * s.n + x]));
                const uint32_t mrg = (uint32_t)std::ceil(wmx) + 3;
                const float* dout = b.out->getData();
                for (uint32_t x = 0; x < s.n; x++) for (uint32_t y = 0; y < s.n; y++) {
                    double v = din[bb * nn + (size_t)x * s.n + y], vo = dout[bb * nn + (size_t)x * s.n + y];
                    Q += v; M0 += v * y; E += v * (double)forces[bb * s.n + x]; Qo += vo; M1 += vo * y;
                    if (y < mrg || y + mrg >= s.n) edge += std::fabs(v);
                }
                {   // (after a few rate jumps the generated bunch may have wandered out of the grid in position: nothing left to weigh the kick with)
                    const double sgy0 = std::min(sg[bb], (0.4 * s.n - 5) / 5.5);
                    if (!(Q > 0.05 * 6.283 * am[bb] * sg[bb] * sgy0)) { M.ev("centroid_checks_skipped_bunch_left_grid"); continue; }     // less than 5 % of the bunch is still on the grid
                }
                if (!(Q > 0) || edge > 1e-7 * Q) { M.ev("centroid_checks_skipped_border_charge"); continue; }
                double moved = M1 / Qo - M0 / Q, want = -E / Q;
                double tol = 4e-7 * s.n + 1e-3 * std::fabs(want);
                M.ev("kick_centroids_checked");
                if (std::fabs(want) < 1e-3 && std::fabs(want) > 20 * tol) M.ev("kick_centroids_checked_below_1e-3_cell");
                if (!M.within("centroid_shift_err_over_tol", std::fabs(moved - want) / tol, 1.0)) {
                    vh::J d; d.s("spec", s.descr()).i("step", st).i("bunch", bb).n("centroid_shift", moved).n("minus_mean_recorded_wake", want).n("largest_kick_cells", wmx).n("tol", tol);
                    M.violation("C05:kick_not_recorded_wake", "the energy centroid of a bunch does not move by (minus) the profile-weighted mean of the recorded wake potential", d.str());
                    bad = true; break;
                }
            }
            if (!force_ok || diff) {
                vh::J d; d.s("spec", s.descr()).i("step", st).n("relative_change_per_step", rate).i("force_is_current_wake", force_ok).i("cells_differ", diff)
                    .n("map_result", b.out->getData()[first]).n("fresh_map_result", fresh_out->getData()[first]);
                M.violation(std::string("C05:kick_not_current_wake") + (force_ok ? ":table" : ":force"),
                            "the wake kick applied in a step is not the wake potential of the current profile", d.str());
                bad = true;
            }
        }
        M.sig(vh::hmix(vh::hmix(s.n * 8 + s.nb * 4 + s.it, (uint64_t)nsteps), (uint64_t)(int64_t)(std::log10(rate) * 1e6)));
        { vh::J j; j.s("spec", s.descr()).n("relative_change_per_step", rate).i("steps", nsteps); M.sample(j.str()); }
    }
    M.finish();
    return 0;
}
