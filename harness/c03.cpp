// C03 monitor (API part): under RF kick + drift the centre of charge follows the exact product
// of kick-drift matrices, hence rotates by 2*pi/steps per step and closes after one period.
#include "maps.hpp"

using namespace vfps;
using namespace vm;
static vh::Monitor M;
static const double PI2 = 6.283185307179586476925;

struct Cen { double q, p, w; };

static Cen centroid(const PhaseSpace& ps, uint32_t n, uint32_t b = 0) {
    const float* d = ps.getData() + (size_t)b * n * n;
    double s = 0, sq = 0, sp = 0;
    for (uint32_t x = 0; x < n; x++) {
        double q = ps.q(x), row = 0, rp = 0;
        for (uint32_t y = 0; y < n; y++) { double v = d[(size_t)x * n + y]; row += v; rp += v * ps.p(y); }
        s += row; sq += row * q; sp += rp;
    }
    return {sq / s, sp / s, s};
}

// fraction of |charge| within three cells of the border: "the distribution stays inside the grid"
static double border_fraction(const PhaseSpace& ps, uint32_t n, uint32_t b = 0) {
    const float* d = ps.getData() + (size_t)b * n * n;
    double tot = 0, edge = 0;
    for (uint32_t x = 0; x < n; x++) for (uint32_t y = 0; y < n; y++) {
        double v = std::fabs((double)d[(size_t)x * n + y]); tot += v;
        if (x < 3 || y < 3 || x + 3 >= n || y + 3 >= n) edge += v;
    }
    return edge / (tot + 1e-300);
}

int main(int argc, char** argv) {
    M.parse(argc, argv);
    for (long c = M.from; c < M.from + M.count; c++) {
        Rng r(M.seed, c, 301);
        uint32_t n = (uint32_t)r.range(48, M.thorough() ? 256 : 128);
        int it = 2 + (int)(c % 3);
        bool sinus = (c / 3) % 3 == 2;
        uint32_t steps = (uint32_t)std::round(r.logu(20, M.thorough() ? 2000 : 600));
        // one case in sixteen: very many steps per period on a small mesh (per-step displacements of 1e-4 cell and less near the zero bins)
        bool longrun = (c % 16 == 7);
        if (longrun) { n = (uint32_t)r.range(32, 40); steps = (uint32_t)std::round(r.logu(1e5, 3e5)); it = 3 + (int)(c / 16 % 2); M.ev("cases_with_1e5_steps_per_period"); }
        // one case in sixteen at scale: a mesh of 300-1030 cells, or a train of 17-260 bunches (few steps per period: the statement holds for any number)
        const bool scale = (c % 16 == 11);
        uint32_t scale_nb = 0;
        if (scale) {
            static const uint32_t big_n[] = {300, 520, 1030}, big_nb[] = {17, 40, 260};
            steps = (uint32_t)r.range(24, 60);
            if ((c / 16) % 2 == 0) { n = big_n[(c / 32) % 3]; M.ev("cases_on_meshes_beyond_256_cells"); }
            else { n = 48; scale_nb = big_nb[(c / 32) % 3]; M.ev("cases_with_trains_beyond_16_bunches"); }
        }
        double a = PI2 / steps;
        double shiftx = r.chance(0.6) ? r.uni(-3, 3) : 0, shifty = r.chance(0.6) ? r.uni(-3, 3) : 0;
        const double pq = 12, d = pq / (n - 1);
        double qc = -shiftx * d, pc = -shifty * d;
        double qscale = r.logu(1e-3, 3e-3), pscale = r.logu(2e5, 2e6), fRF = r.logu(1e8, 5e8), V = r.logu(2e5, 4e6);   // k_RF*sigma <= 0.03: 'small amplitudes'
        // a quarter of the cases are trains of 2-3 bunches, each with its own start: "any distribution" includes every bunch of a train
        uint32_t nb = (c % 4 == 3 && !longrun) ? (uint32_t)r.range(2, 3) : 1;
        if (scale) nb = scale_nb ? scale_nb : 1;
        // one case in ten asks for clamped interpolation (a no-op in the CPU kick maps of this tree; a limiter, where implemented, does not
        // transport first moments exactly): judged by the statement's rotation bound only, with a third of a cell of allowance
        bool clamp = (c % 10 == 9);
        if (clamp) M.ev("cases_with_clamped_interpolation");
        std::ostringstream ds; ds << (sinus ? "sinus" : "linear") << " n=" << n << " nb=" << nb << " it=" << it << " steps=" << steps << " shift=(" << shiftx << "," << shifty << ")";
        M.begin_case(c, ds.str());
        vh::set_grid(n, nb);
        auto mk = [&]() { return std::make_shared<PhaseSpace>((meshaxis_t)(qc - pq / 2), (meshaxis_t)(qc + pq / 2), qscale, (meshaxis_t)(pc - pq / 2), (meshaxis_t)(pc + pq / 2), pscale,
                                                              nullptr, 1e-10, 1e-3, std::vector<integral_t>(nb, 1.0f / nb), 1.0, nullptr); };
        auto A = mk(), B = mk();
        // start: one or two blobs, centroid radius up to 2 sigma, any phase; everything stays inside the grid (|q|,|p| < 6)
        std::fill(A->getData(), A->getData() + (size_t)nb * n * n, 0.0f);
        for (uint32_t bn = 0; bn < nb; bn++) {
            int nblob = r.chance(0.5) ? 1 : 2;
            float* da = A->getData() + (size_t)bn * n * n;
            for (int b = 0; b < nblob; b++) {
                double rad = r.uni(0.2, it == 2 ? 1.0 : 2.0), ph = r.uni(0, PI2), sg = r.uni(0.4, 0.6), amp = r.uni(0.3, 1);
                if (longrun) { rad = r.uni(0.3, 1.0); sg = r.uni(0.8, 1.0); }     // (well resolved on the small mesh: 1e5 interpolations must not wear the blob down)
                double mq = rad * std::cos(ph), mp = rad * std::sin(ph);
                for (uint32_t x = 0; x < n; x++) for (uint32_t y = 0; y < n; y++) {
                    double q = A->q(x), p = A->p(y);
                    double v = amp * std::exp(-0.5 * ((q - mq) * (q - mq) + (p - mp) * (p - mp)) / (sg * sg));
                    if ((q - mq) * (q - mq) + (p - mp) * (p - mp) < (longrun ? 12.25 : 16) * sg * sg) da[(size_t)x * n + y] += (float)v;   // compact support: stays inside while rotating
                }
            }
        }
        std::unique_ptr<RFKickMap> rf;
        double t_eff, nonlin = 0;     // nonlin: relative curvature of the sine over the region the charge occupies
        if (!sinus) { rf.reset(new RFKickMap(A, B, (meshaxis_t)a, (frequency_t)fRF, (SourceMap::InterpolationType)it, clamp, nullptr)); t_eff = std::tan((double)(float)a); }
        else {
            double bl2phase = qscale / physcons::c * fRF * PI2;
            nonlin = std::pow(bl2phase * (2.0 + 2.5), 2) / 6.0;     // centroid radius <= 2 sigma, blobs reach 2.4 sigma further
            double revpart = a * pscale / (V * bl2phase);     // so that the small-amplitude kick is a*q
            rf.reset(new RFKickMap(A, B, (timeaxis_t)revpart, (meshaxis_t)V, (frequency_t)fRF, (meshaxis_t)0, (SourceMap::InterpolationType)it, clamp, nullptr));
            t_eff = (double)(float)revpart * (double)(float)V * bl2phase / pscale;
        }
        std::vector<meshaxis_t> slip{(meshaxis_t)a};
        DriftMap drift(B, A, slip, (meshaxis_t)1.3e9, (SourceMap::InterpolationType)it, clamp, nullptr);
        std::vector<Cen> c0v(nb); std::vector<double> mqv(nb), mpv(nb); std::vector<char> insidev(nb, 1), stopv(nb, 0);
        for (uint32_t bn = 0; bn < nb; bn++) { c0v[bn] = centroid(*A, n, bn); mqv[bn] = c0v[bn].q; mpv[bn] = c0v[bn].p; }
        Cen c0 = c0v[0];
        double r0 = std::hypot(c0.q, c0.p);
        double worst_tight = 0, worst_rot = 0, af = (double)(float)a;
        bool stop = false;
        for (uint32_t k = 1; k <= steps && !stop; k++) {
            rf->apply();
            drift.apply();
            M.ev("steps_observed");
            bool all_stopped = true;
            for (uint32_t bn = 0; bn < nb; bn++) {
                if (stopv[bn]) continue;
                const Cen& cb = c0v[bn];
                double rb = std::hypot(cb.q, cb.p);
                double& mq = mqv[bn]; double& mp = mpv[bn];
                mp = mp + t_eff * mq;           // kick: p += tan(a) q
                mq = mq - af * mp;              // drift: q -= a p
                Cen ck = centroid(*A, n, bn);
                double e1 = std::hypot(ck.q - mq, ck.p - mp);
                double ex = rb * std::cos(std::atan2(cb.p, cb.q) + k * a), ey = rb * std::sin(std::atan2(cb.p, cb.q) + k * a);
                double e2 = std::hypot(ck.q - ex, ck.p - ey);
                worst_tight = std::max(worst_tight, e1); worst_rot = std::max(worst_rot, e2);
                if (nb > 1) M.ev("train_bunch_steps_observed");
                double sin_allow = sinus ? std::max(2e-3, nonlin) * rb * (1 + k * a) : 0;
                double tol1 = sin_allow + 2e-5 * (1 + rb) * (1 + 0.02 * k);
                double tol2 = 2.0 * a * rb + 2e-4 + sin_allow + (clamp ? 0.35 * d : 0.0);
                if (longrun) {
                    // 1e5 interpolations diffuse a little charge to the border whatever the scheme: such a case is judged over the whole period,
                    // by a bound far above that effect and far below what a centroid that does not follow the rotation produces
                    insidev[bn] = 1; tol2 = 0.25 * rb + 0.05;
                    if (std::fabs(ck.w / cb.w - 1) > 0.05) { M.ev("charge_left_grid"); stopv[bn] = 1; continue; }
                }
                if (!insidev[bn] && std::fabs(ck.w / cb.w - 1) > 1e-3) { M.ev("charge_left_grid"); stopv[bn] = 1; continue; }   // diffused over the border: not judged
                if (!longrun && border_fraction(*A, n, bn) > 1e-7) insidev[bn] = 0;   // (long runs are judged by the rotation bound, far coarser than 2e-5 of the charge times the grid size)    // once charge has reached the border region the case is no longer "inside the grid"
                bool lossless = insidev[bn];
                if (!lossless) M.ev("steps_with_charge_loss_not_judged");
                std::string bk = (bn > 0) ? ":bunch>0" : "";
                if (lossless && !clamp && !longrun && !M.within(std::string("centroid_vs_matrix_product_over_tol.") + (sinus ? "sinus" : "linear"), e1 / tol1, 1.0)) {
                    vh::J dj; dj.s("case", ds.str()).i("step", k).i("bunch", bn).n("q", ck.q).n("p", ck.p).n("want_q", mq).n("want_p", mp).n("c0_q", cb.q).n("c0_p", cb.p);
                    M.violation(std::string("C03:track:") + (sinus ? "sinus" : "linear") + bk, "centre of charge leaves the exact kick-drift orbit", dj.str());
                    stopv[bn] = 1;
                } else if (lossless && !M.within(std::string("centroid_vs_rotation_over_bound.") + (sinus ? "sinus" : "linear"), e2 / tol2, 1.0)) {
                    vh::J dj; dj.s("case", ds.str()).i("step", k).i("bunch", bn).n("q", ck.q).n("p", ck.p).n("want_q", ex).n("want_p", ey).n("bound", tol2);
                    M.violation(std::string("C03:rotation:") + (sinus ? "sinus" : "linear") + bk, "centre of charge deviates from the rotation by k*2pi/steps by more than the splitting error", dj.str());
                    stopv[bn] = 1;
                }
                if (!stopv[bn]) all_stopped = false;
                if (k == steps && !stopv[bn]) M.ev(bn == 0 ? "periods_closed" : "periods_closed_bunch>0");
                if (k == steps && !stopv[bn] && longrun && lossless) M.ev("periods_of_1e5_steps_closed");
            }
            if (all_stopped) stop = true;
        }
        M.sig(vh::hmix(vh::hmix(n * 8 + it, steps), (uint64_t)(int64_t)(c0.q * 1e9) ^ (uint64_t)(int64_t)(c0.p * 1e7)));
        { vh::J j; j.s("case", ds.str()).n("c0_q", c0.q).n("c0_p", c0.p).n("worst_vs_matrix", worst_tight).n("worst_vs_rotation", worst_rot).n("a_r0", a * r0); M.sample(j.str()); }
    }
    M.finish();
    return 0;
}
