// C02 monitor: interpolation weights (exhaustive over float offsets), whole-cell shifts
// (bit-exact), polynomial reproduction through KickMap::apply() and RotationMap::apply().
#include "common.hpp"
#include <limits>
#include "SM/KickMap.hpp"
#include "SM/RotationMap.hpp"

using namespace vfps;
using vh::Rng;

struct Probe : public SourceMap { using SourceMap::calcCoefficiants; };

static vh::Monitor M;

// (same helper as in maps.hpp, which this harness does not use) the wanted table, then one in which every third row is not representable
// on the grid (several grid lengths, or NaN), after which the caller installs the wanted table again
static void kick_history_through_far_offsets(KickMap& km, const std::vector<meshaxis_t>& want, uint32_t n, uint64_t salt) {
    std::vector<meshaxis_t> a = want; km.swapOffset(a);
    std::vector<meshaxis_t> far = want;
    for (size_t i = salt % 3; i < far.size(); i += 3) far[i] = ((i + salt) % 2) ? std::numeric_limits<meshaxis_t>::quiet_NaN() : (meshaxis_t)(((i + salt) % 4 < 2 ? 3.0 : -2.5) * n);
    km.swapOffset(far);
}

static const double NODES[5][4] = {{0}, {0}, {0, 1}, {-1, 0, 1}, {-1, 0, 1, 2}};

// ---- weights ---------------------------------------------------------------------
static void check_weight(uint32_t bits) {
    float f; memcpy(&f, &bits, 4);
    for (int it = 1; it <= 4; it++) {
        float w[4] = {7, 7, 7, 7};
        Probe::calcCoefficiants(w, f, it);
        double s = 0;
        for (int j = 0; j < it; j++) s += (double)w[j];
        if (!M.within("weights.sum_minus_1", std::fabs(s - 1.0), 1e-6)) {
            vh::J d; d.i("bits", bits).n("f", f).i("order", it).n("sum", s);
            M.violation("C02:weights:sum:order" + std::to_string(it), "interpolation weights do not sum to one", d.str());
        }
        double fm = 1;
        for (int m = 1; m < it; m++) {
            fm *= (double)f;
            double mom = 0;
            for (int j = 0; j < it; j++) mom += (double)w[j] * std::pow(NODES[it][j], m);
            if (!M.within("weights.moment_error", std::fabs(mom - fm), 1e-6)) {
                vh::J d; d.i("bits", bits).n("f", f).i("order", it).i("moment", m).n("got", mom).n("want", fm);
                M.violation("C02:weights:moment:order" + std::to_string(it), "weights do not reproduce monomial", d.str());
            }
        }
        if (bits == 0) {
            int ones = 0, zeros = 0;
            for (int j = 0; j < it; j++) { if (w[j] == 1.0f) ones++; else if (w[j] == 0.0f) zeros++; }
            // the unit weight must sit on node 0
            int at0 = -1; for (int j = 0; j < it; j++) if (NODES[it][j] == 0) at0 = j;
            if (ones != 1 || zeros != it - 1 || w[at0] != 1.0f) {
                vh::J d; d.i("order", it).n("w0", w[0]).n("w1", w[1]).n("w2", w[2]).n("w3", w[3]);
                M.violation("C02:weights:unit_at_zero:order" + std::to_string(it), "weights at offset 0 are not a single unit weight on node 0", d.str());
            }
            M.ev("weights_checked_at_zero");
        }
    }
    M.ev("weight_sets_checked", 4);
}

static void mode_weights() {
    long stride = atol(M.opt("--stride", "64").c_str());
    const uint32_t END = 0x3F800000u;  // 1.0f
    const uint32_t BLK = 1u << 16;
    long n = 0;
    for (long b = M.from; b < M.from + M.count; b++) {
        uint32_t lo = (uint32_t)b * BLK, hi = lo + BLK;
        if (lo >= END) break;
        if (hi > END) hi = END;
        for (uint32_t p = lo; p < hi; p++) {
            uint32_t man = p & 0x7FFFFF;
            bool edge = (man == 0 || man == 1 || man == 0x7FFFFF || man == 0x400000);
            if (stride > 1 && (p % stride) != 0 && !edge) continue;
            check_weight(p); n++;
        }
    }
    M.cases += n;
    M.distinct_extra += n;     // every bit pattern is a distinct offset by construction
    M.exhaustive = (stride == 1) ? 1 : 0;
}

// ---- helpers -----------------------------------------------------------------------
static std::vector<float> random_data(Rng& r, size_t n, int flavour) {
    std::vector<float> v(n);
    for (size_t i = 0; i < n; i++) {
        double x;
        switch (flavour) {
        case 0: x = r.uni(-1, 1); break;
        case 1: x = r.uni(0, 1); break;
        case 2: x = r.gauss() * std::pow(10.0, r.uni(-30, 30)); break;     // huge dynamic range
        default: x = (r.chance(0.3) ? 1e-42 * r.uni(-1, 1) : r.uni(-1, 1));  // denormals mixed in
        }
        v[i] = (float)x;
        if (!std::isfinite(v[i])) v[i] = 1.0f;
    }
    return v;
}

// ---- whole-cell shifts ---------------------------------------------------------------
static void mode_shift() {
    for (long c = M.from; c < M.from + M.count; c++) {
        Rng r(M.seed, c, 2);
        uint32_t n = (uint32_t)r.range(4, M.thorough() ? 96 : 64);
        int it = 1 + (int)(c % 4);
        bool ykick = (c / 4) % 2;
        int flavour = (int)r.range(0, 3);
        uint32_t nb = (c % 3 == 2) ? (uint32_t)r.range(2, 3) : 1;    // a third of the cases: trains (per-bunch displacement fields)
        // scale: one case in sixteen is large in one dimension (more than 256 / 512 / 1024 cells per axis; more than 16 / 256 bunches);
        // such a case samples a dozen displacements (both extremes included) instead of all that fit
        bool scale = ((c / 8) % 16 == 5);
        if (scale) {
            static const uint32_t big_n[] = {257, 300, 513, 1030}; static const uint32_t big_nb[] = {17, 40, 257, 300};
            if (r.chance(0.5)) { n = big_n[r.range(0, 3)]; nb = (uint32_t)r.range(1, 2); } else { nb = big_nb[r.range(0, 3)]; n = (uint32_t)r.range(8, 16); }
            M.ev("scale_cases");
        }
        {
            std::ostringstream d; d << "shift n=" << n << " nb=" << nb << " it=" << it << " axis=" << (ykick ? "y" : "x") << " flavour=" << flavour;
            M.begin_case(c, d.str());
        }
        vh::set_grid(n, nb);
        std::vector<integral_t> fill(nb, 1.0f / nb);
        auto in = vh::make_ps(-6, 6, -6, 6, fill);
        auto out = vh::make_ps(-6, 6, -6, 6, fill);
        KickMap km(in, out, (SourceMap::InterpolationType)it, false,
                   ykick ? KickMap::Axis::y : KickMap::Axis::x, nullptr);
        const size_t nn = (size_t)n * n;
        std::vector<float> data = random_data(r, nn * nb, flavour);
        std::copy(data.begin(), data.end(), in->getData());
        const int dmin = -(int)(n / 2), dmax = (int)n - (int)(n / 2) - 1;
        // every uniform displacement that fits, then per-row (and per-bunch) random displacements
        int nrounds = (dmax - dmin + 1) + 4;
        std::vector<int> uniform_d;
        if (scale && n > 64) { uniform_d = {dmin, dmin + 1, -1, 0, 1, dmax - 1, dmax}; for (int k = 0; k < 5; k++) uniform_d.push_back((int)r.range(dmin, dmax)); nrounds = (int)uniform_d.size() + 3; }
        for (int round = 0; round < nrounds; round++) {
            std::vector<float> off((size_t)n * nb);
            std::vector<int> dd((size_t)n * nb);
            for (uint32_t b = 0; b < nb; b++) for (uint32_t k = 0; k < n; k++) {
                int v = (round <= dmax - dmin) ? dmin + round : (int)r.range(dmin, dmax);
                if (!uniform_d.empty()) v = (round < (int)uniform_d.size()) ? uniform_d[round] : (int)r.range(dmin, dmax);
                // the x kick has one field for all bunches (KickMap reads the first block); the y kick one per bunch
                if (!ykick && b > 0) v = dd[k];
                dd[(size_t)b * n + k] = v; off[(size_t)b * n + k] = (float)v;
            }
            if (round % 3 == 1) { std::vector<float> oc = off; kick_history_through_far_offsets(km, oc, n, (uint64_t)(c + round)); M.ev("kick_maps_with_a_history_through_offsets_beyond_the_grid"); }
            km.swapOffset(off);
            std::fill(out->getData(), out->getData() + nn * nb, 123.0f);
            km.apply();
            const float* o = out->getData();
            long bad = 0; long firstbad = -1;
            for (uint32_t b = 0; b < nb; b++) for (uint32_t x = 0; x < n; x++) for (uint32_t y = 0; y < n; y++) {
                float want;
                const float* db = data.data() + b * nn;
                if (!ykick) { int xs = (int)x + dd[(size_t)b * n + y]; want = (xs >= 0 && xs < (int)n) ? db[(size_t)xs * n + y] : 0.0f; }
                else { int ys = (int)y + dd[(size_t)b * n + x]; want = (ys >= 0 && ys < (int)n) ? db[(size_t)x * n + ys] : 0.0f; }
                if (!vh::bits_equal(o[b * nn + (size_t)x * n + y], want)) { if (!bad) firstbad = (long)(b * nn + x * n + y); bad++; }
            }
            M.ev("shift_applications");
            if (nb > 1) M.ev("shift_applications_multibunch");
            M.ev("shift_cells_compared", (long)(nn * nb));
            if (bad) {
                vh::J d; d.i("n", n).i("nb", nb).i("order", it).s("axis", ykick ? "y" : "x").i("round", round).i("d_first_row", dd[0])
                    .i("bad_cells", bad).i("first_bad", firstbad).n("got", o[firstbad]);
                M.violation(std::string("C02:shift:") + (ykick ? "y" : "x") + ":order" + std::to_string(it) + (nb > 1 ? ":train" : ""),
                            "whole-cell displacement is not a bit-exact move with zero inflow", d.str());
            }
        }
        M.sig(vh::hmix(vh::hmix(n * 4 + nb, it), ykick * 7 + flavour));
        { vh::J s; s.s("class", "shift").i("n", n).i("nb", nb).i("order", it).s("axis", ykick ? "y" : "x").i("displacements", nrounds); M.sample(s.str()); }
    }
}

// ---- polynomial reproduction through KickMap::apply ------------------------------------
static void mode_poly() {
    for (long c = M.from; c < M.from + M.count; c++) {
        Rng r(M.seed, c, 3);
        uint32_t n = (uint32_t)r.range(8, 64);
        int it = 1 + (int)(c % 4);
        bool ykick = (c / 4) % 2;
        bool exactoff = (c / 8) % 2 == 0;    // offsets on a 2^-16 lattice: n/2+offset is exact in float
        uint32_t nb = (c % 3 == 2) ? (uint32_t)r.range(2, 3) : 1;   // a third of the cases: trains with per-bunch fields
        if ((c / 8) % 16 == 5) {     // scale (see the shift part)
            static const uint32_t big_n[] = {257, 300, 513, 1030}; static const uint32_t big_nb[] = {17, 40, 257, 300};
            if (r.chance(0.5)) { n = big_n[r.range(0, 3)]; nb = (uint32_t)r.range(1, 2); } else { nb = big_nb[r.range(0, 3)]; n = (uint32_t)r.range(8, 16); }
            M.ev("scale_cases");
        }
        {
            std::ostringstream d; d << "poly n=" << n << " nb=" << nb << " it=" << it << " axis=" << (ykick ? "y" : "x") << " exactoff=" << exactoff;
            M.begin_case(c, d.str());
        }
        vh::set_grid(n, nb);
        std::vector<integral_t> fill(nb, 1.0f / nb);
        auto in = vh::make_ps(-6, 6, -6, 6, fill);
        auto out = vh::make_ps(-6, 6, -6, 6, fill);
        const size_t nn = (size_t)n * n;
        KickMap km(in, out, (SourceMap::InterpolationType)it, false,
                   ykick ? KickMap::Axis::y : KickMap::Axis::x, nullptr);
        // polynomial of degree < it in t = (k - n/2)/n  (values O(1)); separable factor g(other)
        double co[4] = {0, 0, 0, 0};
        for (int m = 0; m < it; m++) co[m] = r.uni(-1, 1);
        std::vector<double> g(n);
        for (uint32_t k = 0; k < n; k++) g[k] = r.uni(-2, 2);
        auto P = [&](double k) { double t = (k - n / 2.0) / n; return co[0] + t * (co[1] + t * (co[2] + t * co[3])); };
        auto dP = [&](double k) { double t = (k - n / 2.0) / n; return (co[1] + t * (2 * co[2] + 3 * t * co[3])) / n; };
        float* di = in->getData();
        for (uint32_t bb = 0; bb < nb; bb++) for (uint32_t x = 0; x < n; x++) for (uint32_t y = 0; y < n; y++)
            di[bb * nn + (size_t)x * n + y] = (float)((ykick ? P(y) * g[x] : P(x) * g[y]));
        std::vector<float> off((size_t)n * nb);
        double amp = r.chance(0.5) ? 1.0 : n / 4.0;
        for (uint32_t k = 0; k < (uint32_t)(n * nb); k++) {
            double o = r.uni(-amp, amp);
            if (exactoff) o = std::round(o * 65536.0) / 65536.0;
            if (r.chance(0.05)) o = 0;
            if (!ykick && k >= n) o = off[k % n];       // the x kick has one field for all bunches
            off[k] = (float)o;
        }
        std::vector<float> offcopy = off;
        if ((c / 8) % 6 == 4) { kick_history_through_far_offsets(km, offcopy, n, (uint64_t)c); M.ev("kick_maps_with_a_history_through_offsets_beyond_the_grid"); }
        km.swapOffset(off);
        km.apply();
        const float* o = out->getData();
        long checked = 0;
        for (uint32_t bb = 0; bb < nb; bb++) for (uint32_t row = 0; row < n; row++) {
            double d = (double)offcopy[(size_t)bb * n + row];
            // what the map does in float: poffs = n/2 + offset
            float poffs = (float)(n / 2) + offcopy[(size_t)bb * n + row];
            double lost = std::fabs((double)poffs - ((double)(n / 2) + d));   // offset bits lost in that sum
            for (uint32_t k = 0; k < n; k++) {
                double src = (double)k + d;
                double fl = std::floor(src);
                // stencil fully inside the grid?
                int lo = (int)fl + (int)NODES[it][0], hi = (int)fl + (int)NODES[it][it - 1];
                if (it == 1) {
                    // nearest-lower-cell scheme reproduces constants only: src cell must be inside
                    lo = hi = (int)std::floor((double)poffs) - (int)(n / 2) + (int)k;
                }
                if (lo < 0 || hi >= (int)n) continue;
                if (it >= 2 && d < 0 && std::floor((double)poffs) != std::floor(n / 2 + d)) continue;  // rounding moved the cell edge
                double want, scale;
                double gg = g[row];
                want = P(src) * gg;
                scale = 0;
                for (int j = 0; j < it; j++) scale = std::max(scale, std::fabs(P(fl + NODES[it][j]) * gg));
                size_t idx = bb * nn + (ykick ? (size_t)row * n + k : (size_t)k * n + row);
                double err = std::fabs((double)o[idx] - want);
                double tol = 6e-6 * (scale + 1e-3) + 2 * std::fabs(dP(src) * gg) * lost;
                checked++;
                if (!M.within("poly.err_over_tol", err / tol, 1.0)) {
                    vh::J dj; dj.i("n", n).i("order", it).s("axis", ykick ? "y" : "x").i("row", row).i("cell", k)
                        .n("offset", d).n("got", o[idx]).n("want", want).n("tol", tol);
                    M.violation(std::string("C02:poly:") + (ykick ? "y" : "x") + ":order" + std::to_string(it) + (nb > 1 ? ":train" : ""),
                                "fractional displacement does not reproduce a polynomial of degree below the order", dj.str());
                }
            }
        }
        M.ev("poly_applications"); if (nb > 1) M.ev("poly_applications_multibunch");
        M.ev("poly_cells_compared", checked);
        if (checked) M.sig(vh::hmix(vh::hmix(n, it), vh::hdata(offcopy.data(), 4 * n * nb)));
        { vh::J s; s.s("class", "poly").i("n", n).i("order", it).s("axis", ykick ? "y" : "x").arr("offsets", offcopy, 6).i("cells_checked", checked); M.sample(s.str()); }
    }
}

// ---- RotationMap ---------------------------------------------------------------------------
static void mode_rot() {
    for (long c = M.from; c < M.from + M.count; c++) {
        Rng r(M.seed, c, 4);
        uint32_t n = (uint32_t)r.range(8, 48);
        int it = 2 + (int)(c % 3);
        bool identity = (c % 5 == 0);
        double angle = identity ? 0.0 : r.uni(-0.6, 0.6);
        bool premap = (c / 3) % 2;
        double shiftx = r.chance(0.5) ? 0 : r.uni(-2, 2), shifty = r.chance(0.5) ? 0 : r.uni(-2, 2);
        {
            std::ostringstream d; d << "rot n=" << n << " it=" << it << " angle=" << angle << " premap=" << premap;
            M.begin_case(c, d.str());
        }
        vh::set_grid(n, 1);
        auto in = vh::make_ps(-6 + shiftx, 6 + shiftx, -6 + shifty, 6 + shifty, {1.0f});
        auto out = vh::make_ps(-6 + shiftx, 6 + shiftx, -6 + shifty, 6 + shifty, {1.0f});
        // bivariate polynomial, degree < it in each variable
        double co[4][4];
        for (int a = 0; a < 4; a++) for (int b = 0; b < 4; b++) co[a][b] = (a < it && b < it) ? r.uni(-1, 1) : 0;
        auto P = [&](double x, double y) {
            double tx = (x - n / 2.0) / n, ty = (y - n / 2.0) / n, s = 0, px = 1;
            for (int a = 0; a < it; a++) { double py = 1; for (int b = 0; b < it; b++) { s += co[a][b] * px * py; py *= ty; } px *= tx; }
            return s; };
        float* di = in->getData();
        for (uint32_t x = 0; x < n; x++) for (uint32_t y = 0; y < n; y++) di[(size_t)x * n + y] = (float)P(x, y);
        RotationMap rm(in, out, n, n, (meshaxis_t)angle, (SourceMap::InterpolationType)it, false, premap ? n * n : 0, nullptr);
        rm.apply();
        const float* o = out->getData();
        auto ax0 = in->getAxis(0), ax1 = in->getAxis(1);
        const double cs = (double)(float)std::cos(-(float)angle), sn = (double)(float)std::sin(-(float)angle);
        long checked = 0;
        for (uint32_t x = 0; x < n; x++) for (uint32_t y = 0; y < n; y++) {
            double xs = (cs * ax0->at(x) - sn * ax1->at(y)) / ax0->delta() + ax0->zerobin();
            double ys = (sn * ax0->at(x) + cs * ax1->at(y)) / ax1->delta() + ax1->zerobin();
            double fx = std::floor(xs), fy = std::floor(ys);
            // keep clear of cell edges (float evaluation may land in the neighbouring cell) and of the border
            if (xs - fx < 1e-3 || xs - fx > 1 - 1e-3 || ys - fy < 1e-3 || ys - fy > 1 - 1e-3) { if (!identity) continue; }
            if (identity) { fx = std::round(xs); fy = std::round(ys); xs = fx; ys = fy; }
            int lox = (int)fx + (int)NODES[it][0], hix = (int)fx + (int)NODES[it][it - 1];
            int loy = (int)fy + (int)NODES[it][0], hiy = (int)fy + (int)NODES[it][it - 1];
            if (lox < 0 || loy < 0 || hix >= (int)n || hiy >= (int)n) continue;
            double want = P(xs, ys);
            double err = std::fabs((double)o[(size_t)x * n + y] - want);
            // slope term: the map evaluates the source position in float (a few ulp of n)
            double tol = 4e-6 + 4.0 * 6e-8 * 8.0 * it;
            checked++;
            if (!M.within("rot.err_over_tol", err / tol, 1.0)) {
                vh::J dj; dj.i("n", n).i("order", it).n("angle", angle).i("x", x).i("y", y).n("got", o[(size_t)x * n + y]).n("want", want).i("premap", premap);
                M.violation("C02:rot:order" + std::to_string(it), "RotationMap does not reproduce a polynomial of degree below the order in the interior", dj.str());
            }
        }
        M.ev("rot_applications");
        M.ev("rot_cells_compared", checked);
        if (checked) M.sig(vh::hmix(vh::hmix(n, it), (uint64_t)(int64_t)(angle * 1e9)));
        { vh::J s; s.s("class", "rot").i("n", n).i("order", it).n("angle", angle).i("cells_checked", checked); M.sample(s.str()); }
    }
}

int main(int argc, char** argv) {
    M.parse(argc, argv);
    std::string mode = M.opt("--mode", "shift");
    if (mode == "weights") mode_weights();
    else if (mode == "shift") mode_shift();
    else if (mode == "poly") mode_poly();
    else if (mode == "rot") mode_rot();
    else { fprintf(stderr, "unknown mode\n"); return 3; }
    M.finish();
    return 0;
}
