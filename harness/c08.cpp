// C08 monitor: every bunch of a train is transformed bit-for-bit like a single bunch with
// the same data (RF, drift, FP, identity, generic y-kick with per-bunch fields), and the wake
// kick moves bunch b by the wake potential computed for bunch b and nothing else.
#include "maps.hpp"

using namespace vfps;
using namespace vm;
static vh::Monitor M;

static void any_data(Rng& r, float* d, size_t N, int flavour) {
    for (size_t i = 0; i < N; i++) {
        double v = (flavour == 0) ? r.uni(0, 1) : (flavour == 1 ? r.uni(-1, 1) : r.gauss() * std::pow(10.0, r.uni(-6, 6)));
        d[i] = (float)v;
    }
}

static void gauss_data(Rng& r, float* d, uint32_t n) {
    double cx = r.uni(n * 0.35, n * 0.65), cy = r.uni(n * 0.35, n * 0.65), sx = r.uni(1.5, n / 8.0), sy = r.uni(1.5, n / 8.0), a = r.uni(0.2, 2);
    for (uint32_t x = 0; x < n; x++) for (uint32_t y = 0; y < n; y++)
        d[(size_t)x * n + y] = (float)(a * std::exp(-0.5 * ((x - cx) * (x - cx) / (sx * sx) + (y - cy) * (y - cy) / (sy * sy))));
}

int main(int argc, char** argv) {
    M.parse(argc, argv);
    static const Kind kinds[] = {K_KICKY, K_RF_LIN, K_RF_SIN, K_DRIFT, K_FP, K_IDENT, K_WAKE, K_KICKX};
    for (long c = M.from; c < M.from + M.count; c++) {
        Rng r(M.seed, c, 21);
        Spec s;
        s.kind = kinds[c % 8];
        s.n = (uint32_t)r.range(8, M.thorough() ? 96 : 64);
        if (r.chance(0.2)) s.n |= 1;
        s.nb = (uint32_t)r.range(2, 4);
        // scale: one case in twelve is large in one dimension - more than 16 / 256 bunches (small mesh), more than 256 / 512 cells per axis,
        // or more than 2^22 cells in the whole train (index types, grouped or threaded loops over bunches)
        if ((c / 8) % 12 == 9) {
            int which = (int)r.range(0, 5);
            if (which == 0) { s.nb = (uint32_t)r.range(17, 23); s.n = (uint32_t)r.range(10, 20); }
            else if (which == 1) { s.nb = (uint32_t)r.range(257, 300); s.n = (uint32_t)r.range(8, 12); }
            else if (which == 2) { s.n = r.chance(0.5) ? 300 : 520; s.nb = 2; }
            else if (which == 3) { s.nb = 33 + (uint32_t)r.range(0, 9); s.n = 12; }
            else if (which == 4 && s.kind != K_WAKE) { s.n = 1024; s.nb = 5; }         // 5.2e6 cells
            else { s.n = 260; s.nb = 3; }
            M.ev("scale_cases");
        }
        s.it = 1 + (int)((c / 8) % 4);
        if (r.chance(0.5)) { s.shiftx = r.uni(-3, 3); s.shifty = r.uni(-3, 3); }
        double amp = s.n / 4.0;
        int flavour = (int)r.range(0, 2);
        switch (s.kind) {
        case K_KICKY:
            for (uint32_t b = 0; b < s.nb; b++) { auto f = gen_field(r, s.n, amp, (int)r.range(0, 5)); s.off.insert(s.off.end(), f.begin(), f.end()); }
            break;
        case K_KICKX: {
            auto f = gen_field(r, s.n, amp, (int)r.range(0, 5));
            for (uint32_t b = 0; b < s.nb; b++) s.off.insert(s.off.end(), f.begin(), f.end());   // same field for every bunch
            break; }
        case K_RF_LIN: s.angle = r.uni(-0.3, 0.3); break;
        case K_RF_SIN: { double dE = s.pqsize / (s.n - 1) * s.pscale; s.V = 1e6; s.V0 = r.uni(0, 0.9) * s.V; s.revpart = r.uni(-1, 1) * amp * dE / (s.V + s.V0); break; }
        case K_DRIFT: { double a = r.uni(-0.3, 0.3); s.slip = {(float)a}; if (r.chance(0.5)) s.slip.push_back((float)(a * r.uni(-200, 200))); break; }
        case K_FP: { s.fptype = (int)r.range(0, 3); s.deriv = r.chance(0.5) ? 3 : 4; double d = s.pqsize / (s.n - 1); s.e1 = std::min(r.logu(1e-5, 1e-2), 0.4 * d * d); break; }
        case K_WAKE: {
            uint32_t nbuckets = s.nb + (uint32_t)r.range(0, 2);
            std::vector<uint32_t> all; for (uint32_t k = 0; k < nbuckets; k++) all.push_back(nbuckets - 1 - k);
            while (all.size() > s.nb) all.erase(all.begin() + r.range(0, (int64_t)all.size() - 1));
            s.buckets = all;
            s.spacing = s.n + (uint32_t)r.range(0, s.n);
            size_t need = (size_t)(nbuckets - 1) * s.spacing + s.n;
            s.nmax = 64; while (s.nmax < need) s.nmax *= 2;
            s.Z.resize(s.nmax);
            double zs = r.logu(1e-2, 1e2);
            for (size_t k = 0; k < s.nmax; k++) s.Z[k] = {(float)(zs * r.uni(-1, 1)), (float)(zs * r.uni(-1, 1))};
            flavour = 3;
            break; }
        default: break;
        }
        // a quarter of the cases ask for clamped interpolation (a no-op in the CPU kick maps of this tree, a limiter where implemented):
        // whatever it does, it must do it to every bunch of a train as to a bunch on its own
        if ((c / (K_NKINDS * 4)) % 3 == 1) { s.clamp = true; M.ev("cases_with_clamped_interpolation"); }
        M.begin_case(c, s.descr());
        const size_t nn = (size_t)s.n * s.n, N = nn * s.nb;
        std::vector<float> data(N), train_out(N), train_out2;
        std::vector<float> offs;   // offsets the train map actually used (n*nb)
        Rng rd = r;
        if (flavour == 3) for (uint32_t b = 0; b < s.nb; b++) gauss_data(rd, data.data() + b * nn, s.n);
        else any_data(rd, data.data(), N, flavour);
        bool identical_bunches = r.chance(0.25) && s.kind != K_KICKY;
        if (identical_bunches) for (uint32_t b = 1; b < s.nb; b++) std::copy(data.begin(), data.begin() + nn, data.begin() + b * nn);
        // ---- the train ------------------------------------------------------------------
        {
            vh::set_grid(s.n, s.nb);
            // one train in five declares one of its buckets (not the last) empty in the filling pattern: "empty buckets change nothing" -
            // every bucket's cells are transported as they would be alone, whatever the pattern says about their charge
            if ((c / K_NKINDS) % 5 == 4 && s.nb >= 3) { s.empty_bucket = (int)(c % (s.nb - 1)); M.ev("trains_with_a_bucket_declared_empty"); }
            Built b = build(s, s.nb);
            // a third of the kick cases give the map object a history first: an update in which all bunches (or the trailing ones) had
            // bit-identical fields (all zero, or copies of one block) and one application - what the map does now must not depend on it
            if ((s.kind == K_KICKX || s.kind == K_KICKY || s.kind == K_WAKE) && (c / K_NKINDS) % 3 == 2 && s.nb > 1) {
                std::fill(b.in->getData(), b.in->getData() + N, 0.0f);
                if (s.kind == K_WAKE) { b.in->updateXProjection(); b.wake->update(); }       // no charge: every bunch's wake is exactly zero
                else {
                    std::vector<float> pre(s.off.size(), 0.0f);
                    int how = (int)r.range(0, 2);
                    if (how >= 1) for (uint32_t bb = (how == 1 ? 0 : 1); bb < s.nb; bb++)
                        std::copy(s.off.begin() + (size_t)(how == 1 ? 0 : 1) * s.n, s.off.begin() + (size_t)(how == 1 ? 1 : 2) * s.n, pre.begin() + (size_t)bb * s.n);
                    if (how == 2) std::copy(s.off.begin(), s.off.begin() + s.n, pre.begin());
                    b.kick->swapOffset(pre);
                }
                b.map->apply();
                M.ev("maps_with_an_earlier_update_of_identical_fields");
            }
            std::copy(data.begin(), data.end(), b.in->getData());
            // another third: the wanted table, then one with rows that are not representable on the grid, then (below) the wanted table again
            if ((s.kind == K_KICKX || s.kind == K_KICKY) && (c / K_NKINDS) % 3 == 1) { kick_history_through_far_offsets(*b.kick, s.off, s.n, (uint64_t)c); M.ev("kick_maps_with_a_history_through_offsets_beyond_the_grid"); }
            if (s.kind == K_KICKX || s.kind == K_KICKY) { auto o = s.off; b.kick->swapOffset(o); }
            if (s.kind == K_WAKE) { b.in->updateXProjection(); b.wake->update(); }
            if (b.kick) offs.assign(b.kick->getForce(), b.kick->getForce() + (size_t)s.n * s.nb);
            std::fill(b.out->getData(), b.out->getData() + N, 5.0f);
            b.map->apply();
            std::copy(b.out->getData(), b.out->getData() + N, train_out.begin());
            // non-interference: perturb one bunch, the others' outputs must keep their bits
            if (s.kind != K_WAKE) {
                uint32_t j = (uint32_t)r.range(0, s.nb - 1);
                float* din = b.in->getData();
                for (size_t i = 0; i < nn; i++) din[j * nn + i] = din[j * nn + i] * 1.5f + 0.25f;
                b.map->apply();
                const float* o2 = b.out->getData();
                for (uint32_t bb = 0; bb < s.nb; bb++) {
                    if (bb == j) continue;
                    long bad = 0;
                    for (size_t i = 0; i < nn; i++) if (!vh::bits_equal(o2[bb * nn + i], train_out[bb * nn + i])) bad++;
                    M.ev("noninterference_slices");
                    if (bad) {
                        vh::J d; d.s("map", KNAME[s.kind]).i("n", s.n).i("nb", s.nb).i("perturbed", j).i("affected", bb).i("cells", bad);
                        M.violation(std::string("C08:interference:") + KNAME[s.kind], "changing one bunch's data changes another bunch's output", d.str());
                    }
                }
            }
        }
        // ---- every bunch alone -----------------------------------------------------------
        vh::set_grid(s.n, 1);
        for (uint32_t bb = 0; bb < s.nb; bb++) {
            Spec t = s; t.nb = 1;
            bool as_kicky = (s.kind == K_WAKE);
            if (as_kicky) t.kind = K_KICKY;
            Built b = build(t, 1);
            std::copy(data.begin() + bb * nn, data.begin() + (bb + 1) * nn, b.in->getData());
            if (t.kind == K_KICKY) {
                std::vector<float> o(offs.begin() + (size_t)bb * s.n, offs.begin() + (size_t)(bb + 1) * s.n);
                if (s.kind == K_KICKY) o.assign(s.off.begin() + (size_t)bb * s.n, s.off.begin() + (size_t)(bb + 1) * s.n);
                b.kick->swapOffset(o);
            } else if (t.kind == K_KICKX) {
                std::vector<float> o(s.off.begin(), s.off.begin() + s.n);
                b.kick->swapOffset(o);
            }
            std::fill(b.out->getData(), b.out->getData() + nn, 9.0f);
            b.map->apply();
            const float* o1 = b.out->getData();
            long bad = 0; size_t first = 0;
            for (size_t i = 0; i < nn; i++) if (!vh::bits_equal(o1[i], train_out[bb * nn + i])) { if (!bad) first = i; bad++; }
            M.ev("bunch_slices_compared");
            M.ev(std::string("slices.") + KNAME[s.kind]);
            if (bad) {
                vh::J d; d.s("map", KNAME[s.kind]).i("n", s.n).i("nb", s.nb).i("order", s.it).i("bunch", bb).i("cells_differ", bad)
                    .i("first", (long)first).n("train", train_out[bb * nn + first]).n("alone", o1[first]).s("spec", s.descr());
                M.violation(std::string("C08:alone:") + KNAME[s.kind] + (bb > 0 ? ":bunch>0" : ":bunch0"),
                            "a bunch inside a train is not transformed like the same bunch on its own", d.str());
            }
        }
        if (identical_bunches) {
            for (uint32_t bb = 1; bb < s.nb; bb++) {
                if (s.kind == K_WAKE) break;
                long bad = 0;
                for (size_t i = 0; i < nn; i++) if (!vh::bits_equal(train_out[i], train_out[bb * nn + i])) bad++;
                M.ev("identical_bunch_pairs");
                if (bad) {
                    vh::J d; d.s("map", KNAME[s.kind]).i("n", s.n).i("nb", s.nb).i("bunch", bb).i("cells_differ", bad);
                    M.violation(std::string("C08:identical:") + KNAME[s.kind], "identical bunches do not stay identical", d.str());
                }
            }
        }
        M.sig(vh::hmix(vh::hmix(s.kind, s.n * 64 + s.nb * 8 + s.it), vh::hdata(data.data(), std::min<size_t>(N, 2048) * 4)));
        { vh::J j; j.s("spec", s.descr()).i("data_flavour", flavour).i("identical_bunches", identical_bunches); M.sample(j.str()); }
    }
    M.finish();
    return 0;
}
