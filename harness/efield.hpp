// Shared generators for the ElectricField monitors (C06, C07, C18, C16 causality).
#pragma once
#include "common.hpp"
#include "PS/ElectricField.hpp"
#include "Z/Impedance.hpp"
#include <complex>
#include <algorithm>

using namespace vfps;
using vh::Rng;
extern vh::Monitor M;

static std::vector<size_t> all_lengths(bool thorough) {
    static const size_t primes[] = {67, 127, 131, 257, 521, 1031, 2053, 4099};
    static const size_t comps[] = {96, 120, 192, 360, 384, 640, 1000, 1536, 3000};
    static const size_t odds[] = {75, 99, 135, 225, 243, 625, 1125, 3375};
    static const size_t twoodd[] = {70, 130, 250, 606, 1026, 2050, 3750, 6250};   // N/2 odd (unrolled or paired loops over the half spectrum)
    std::vector<size_t> v;
    for (size_t n = 64; n <= (thorough ? 16384u : 4096u); n *= 2) v.push_back(n);
    for (int i = 0; i < (thorough ? 8 : 6); i++) v.push_back(primes[i]);
    for (int i = 0; i < (thorough ? 9 : 7); i++) v.push_back(comps[i]);
    for (int i = 0; i < (thorough ? 8 : 6); i++) v.push_back(odds[i]);
    for (int i = 0; i < (thorough ? 8 : 6); i++) v.push_back(twoodd[i]);
    // scale: transform lengths beyond 2^14 (blocked loops over the half spectrum) and beyond 2^16 (16-bit offsets of a bunch in the train)
    v.push_back(17408); v.push_back(32768); v.push_back(70000);
    if (thorough) v.push_back(131072);
    return v;
}

static size_t pick_length(Rng& r, size_t need, bool thorough) {
    auto v = all_lengths(thorough);
    std::vector<size_t> ok;
    for (size_t n : v) if (n >= need) ok.push_back(n);
    // prefer a spread over kinds: uniform over the admissible lengths, smaller ones twice as likely
    size_t k = (size_t)r.range(0, (int64_t)ok.size() - 1);
    if (r.chance(0.5)) k = (size_t)r.range(0, (int64_t)(ok.size() + 1) / 2 - 1);
    std::sort(ok.begin(), ok.end());
    return ok[k];
}

struct Setup {
    uint32_t n, nb; std::vector<uint32_t> buckets; uint32_t spacing; size_t N;
    double Ib, E0, sE, dt, frev, revpart, L;
    std::vector<std::complex<float>> Z;
    std::string descr() const {
        std::ostringstream o; o << "n=" << n << " nb=" << nb << " N=" << N << " spacing=" << spacing << " buckets=";
        for (auto b : buckets) o << b << ","; return o.str(); }
};

static Setup gen_setup(Rng& r, bool single, bool thorough) {
    Setup s;
    s.n = (uint32_t)r.range(8, 64);
    s.nb = single ? 1 : (uint32_t)r.range(1, 5);
    uint32_t nbuckets = s.nb + (single ? 0 : (uint32_t)r.range(0, 3));
    std::vector<uint32_t> all; for (uint32_t k = 0; k < nbuckets; k++) all.push_back(nbuckets - 1 - k);
    while (all.size() > s.nb) all.erase(all.begin() + r.range(0, (int64_t)all.size() - 1));   // empty buckets anywhere
    s.buckets = all;
    s.spacing = (nbuckets > 1) ? s.n + (uint32_t)r.range(0, 2 * s.n) : (r.chance(0.5) ? 0 : s.n);
    size_t need = (size_t)s.buckets.front() * s.spacing + s.n;
    s.N = pick_length(r, need, thorough);
    // scale: one train in twenty sits in a ring of more than 256 buckets, some of it beyond cell 65536 of a long transform
    if (!single && r.chance(0.05)) {
        s.nb = (uint32_t)r.range(2, 4); s.n = (uint32_t)r.range(8, 24);
        s.spacing = s.n + (uint32_t)r.range(0, 40);
        uint32_t top = (uint32_t)(66000 / s.spacing) + (uint32_t)r.range(1, 20);     // bucket number > 256 and offset > 65536
        s.buckets.clear(); s.buckets.push_back(top);
        for (uint32_t k = 1; k < s.nb; k++) s.buckets.push_back((uint32_t)((s.nb - 1 - k) * (top / s.nb)) + (k + 1 == s.nb ? 0 : (uint32_t)r.range(0, 3)));
        s.N = thorough && r.chance(0.5) ? 131072 : 70000;
        if ((size_t)top * s.spacing + s.n > s.N) s.N = 131072 > (size_t)top * s.spacing + s.n && thorough ? 131072 : s.N;
        if ((size_t)top * s.spacing + s.n > s.N) { top = (uint32_t)((s.N - s.n) / s.spacing); s.buckets[0] = top; }
    }
    s.Ib = r.logu(1e-5, 1e-1); s.E0 = r.logu(5e8, 5e9); s.sE = r.logu(1e-4, 2e-3); s.dt = r.logu(1e-10, 1e-7);
    s.frev = r.logu(1e5, 1e7); s.revpart = s.frev * s.dt; s.L = r.uni(8, 16);
    return s;
}

static std::shared_ptr<PhaseSpace> make_grid(const Setup& s) {
    vh::set_grid(s.n, s.nb);
    std::vector<integral_t> fill(s.nb, 1.0f / s.nb);
    return std::make_shared<PhaseSpace>((meshaxis_t)(-s.L / 2), (meshaxis_t)(s.L / 2), 2.3e-3, (meshaxis_t)(-s.L / 2), (meshaxis_t)(s.L / 2), 6e5,
                                        nullptr, 1e-10, s.Ib, fill, 1.0, nullptr);
}

static void set_profiles(Rng& r, std::shared_ptr<PhaseSpace> ps, const Setup& s, std::vector<double>& rho, int flavour) {
    rho.assign((size_t)s.nb * s.n, 0);
    for (uint32_t b = 0; b < s.nb; b++) {
        boost::multi_array<projection_t, 1> p(boost::extents[s.n]);
        double mu = r.uni(0.3, 0.7) * s.n, sg = r.uni(1, s.n / 6.0), a = r.uni(0.1, 2);
        if (flavour == 3) {
            // profiles whose form factor has exact zeros inside the spectrum: a flat top of 2^k cells, or two equal
            // narrow sub-bunches 2^k cells apart (notches at multiples of N/w resp. odd multiples of N/2d for power-of-two N)
            uint32_t w = 1u << (uint32_t)r.range(1, 3); while (w > 1 && 2 * w + 3 > s.n) w /= 2;
            uint32_t x0 = (uint32_t)r.range(1, std::max<int64_t>(1, (int64_t)s.n - 2 * (int64_t)w - 1));
            bool two = r.chance(0.5);
            for (uint32_t x = 0; x < s.n; x++) {
                double v = two ? ((x == x0 || x == x0 + w) ? a : 0) : ((x >= x0 && x < x0 + w) ? a : 0);
                p[x] = (float)v; rho[(size_t)b * s.n + x] = (double)p[x];
            }
            ps->setProjection(0, b, p);
            continue;
        }
        for (uint32_t x = 0; x < s.n; x++) {
            double v = (flavour == 0) ? r.uni(-1, 1) : (flavour == 1 ? a * std::exp(-0.5 * (x - mu) * (x - mu) / (sg * sg)) : (r.chance(0.15) ? r.uni(0, 1) : 0));
            p[x] = (float)v; rho[(size_t)b * s.n + x] = (double)p[x];
        }
        ps->setProjection(0, b, p);
    }
}

