// C09 monitor: normalisation restores each bunch's share; reported moments are the moments of
// the bunch's own projections (and the analytic ones for Gaussians); copies report the same.
#include "common.hpp"

using namespace vfps;
using vh::Rng;
static vh::Monitor M;
static const double EPS = 5.9604644775390625e-08;

struct G { double mx, my, sx, sy, a; };

int main(int argc, char** argv) {
    M.parse(argc, argv);
    for (long c = M.from; c < M.from + M.count; c++) {
        Rng r(M.seed, c, 31);
        uint32_t n = (uint32_t)r.range(16, M.thorough() ? 256 : 160);
        if (r.chance(0.25)) n |= 1;     // odd sizes too
        uint32_t nb = (uint32_t)r.range(1, 5);
        // scale: one case in sixteen is large in one dimension - more than 512 cells per axis, or more than 256 bunches on a small mesh
        // (slab-wise / pairwise sums over a row, index types of per-bunch helpers)
        if ((c / 3) % 16 == 7) {
            static const uint32_t big_n[] = {513, 600, 768, 1024}; static const uint32_t big_nb[] = {257, 300, 600};
            if (r.chance(0.5)) { n = big_n[r.range(0, 3)]; nb = (uint32_t)r.range(1, 2); } else { nb = big_nb[r.range(0, 2)]; n = (uint32_t)r.range(16, 32); }
            M.ev("scale_cases");
        }
        bool unequal = (c % 8 == 7);    // different cell size in q and p (class reported separately)
        double L = r.logu(4, 40), Lp = unequal ? L * r.uni(0.4, 2.5) : L;
        double qc = r.chance(0.5) ? 0 : r.uni(-0.2, 0.2) * L, pc = r.chance(0.5) ? 0 : r.uni(-0.2, 0.2) * Lp;
        int flavour = (int)(c % 3);     // 0 gaussian, 1 mixture, 2 arbitrary non-negative
        // filling: random shares incl. zeros, rounded so that the float sum is 1 at 1e-5
        std::vector<integral_t> fill(nb);
        int weak = -1;
        {
            std::vector<double> w(nb); double s = 0; int nz = 0;
            for (uint32_t b = 0; b < nb; b++) { w[b] = (nb > 1 && r.chance(0.25)) ? 0 : r.uni(0.1, 1); s += w[b]; nz += w[b] > 0; }
            if (nz == 0) { w[0] = 1; s = 1; }
            // a fifth of the trains: one very weak bunch (a legal filling pattern such as -I 1e-3 3e-11); its share and moments are as good as anybody's
            if (nz > 1 && r.chance(0.2)) { for (uint32_t b = 0; b < nb; b++) if (w[b] > 0) { s -= w[b]; w[b] *= r.logu(1e-9, 1e-5); s += w[b]; weak = (int)b; break; } }
            for (uint32_t b = 0; b < nb; b++) fill[b] = (float)(w[b] / s);
        }
        // width of the generated start distribution (InitialDistZoom): from barely resolved to wider than the grid
        double zoom = (c % 2) ? 1.0 : r.logu(std::max(0.3, 1.5 * std::max(L, Lp) / (n - 1)), 3.0);
        std::ostringstream ds; ds << "n=" << n << " nb=" << nb << " L=" << L << " Lp=" << Lp << " flavour=" << flavour << " zoom=" << zoom;
        M.begin_case(c, ds.str());
        vh::set_grid(n, nb);
        std::shared_ptr<PhaseSpace> ps;
        try {
            ps = std::make_shared<PhaseSpace>((meshaxis_t)(qc - L / 2), (meshaxis_t)(qc + L / 2), 1e-3,
                                              (meshaxis_t)(pc - Lp / 2), (meshaxis_t)(pc + Lp / 2), 1e5,
                                              nullptr, 1e-9, 1e-3, fill, zoom, nullptr);
        } catch (std::invalid_argument&) { M.cases--; continue; }   // filling did not round to 1: not a case
        const double d0 = ps->getDelta(0), d1 = ps->getDelta(1);
        const size_t nn = (size_t)n * n;
        // the generated start distribution is itself charge-normalised: shares as set, whatever its width and the grid's extent
        {
            auto pop0 = ps->getBunchPopulation();
            double tot0 = 0;
            for (uint32_t b = 0; b < nb; b++) {
                tot0 += pop0[b];
                double tol = 2.0 * n * EPS * std::max((double)fill[b], 1e-30);
                M.ev("constructed_shares_checked");
                if (fill[b] == 0 ? pop0[b] != 0 : !M.within("norm.constructed_share_err_over_tol", std::fabs((double)pop0[b] - (double)fill[b]) / tol, 1.0)) {
                    vh::J d; d.i("n", n).i("nb", nb).i("bunch", b).n("zoom", zoom).n("extent_q", L).n("extent_p", Lp).n("share_set", fill[b]).n("share_measured", pop0[b]).n("tol", tol);
                    M.violation("C09:norm:constructed", "a bunch of the generated start distribution does not integrate to its share of the filling pattern", d.str());
                    break;
                }
            }
            if (!M.within("norm.constructed_total_err", std::max(std::fabs(tot0 - 1.0), std::fabs((double)ps->getIntegral() - 1.0)), 4.0 * n * EPS)) {
                vh::J d; d.i("n", n).i("nb", nb).n("zoom", zoom).n("total", tot0).n("integral", ps->getIntegral());
                M.violation("C09:norm:constructed_total", "total charge of the generated start distribution is not one", d.str());
            }
        }
        std::vector<G> gs(nb);
        bool negative_lobes = false;
        float* data = ps->getData();
        for (uint32_t b = 0; b < nb; b++) {
            float* d = data + b * nn;
            if (flavour == 2) { for (size_t i = 0; i < nn; i++) d[i] = (float)(r.chance(0.1) ? 0 : r.uni(0, 3)); continue; }
            int ng = (flavour == 0) ? 1 : (int)r.range(2, 3);
            std::fill(d, d + nn, 0.0f);
            double mixW = 0, mixM[2] = {0, 0}, mixS[2] = {0, 0};     // analytic charge, first and second moments of the mixture so far
            for (int k = 0; k < ng; k++) {
                G g; g.sx = r.uni(2.5, n / 14.0 + 2.6) * d0; g.sy = r.uni(2.5, n / 14.0 + 2.6) * d1;
                double qlo = ps->getMin(0) + 5.5 * g.sx, qhi = ps->getMax(0) - 5.5 * g.sx;
                double plo = ps->getMin(1) + 5.5 * g.sy, phi = ps->getMax(1) - 5.5 * g.sy;
                if (qlo > qhi) { qlo = qhi = 0.5 * (ps->getMin(0) + ps->getMax(0)); g.sx = (ps->getMax(0) - ps->getMin(0)) / 11.5; }
                if (plo > phi) { plo = phi = 0.5 * (ps->getMin(1) + ps->getMax(1)); g.sy = (ps->getMax(1) - ps->getMin(1)) / 11.5; }
                g.mx = r.uni(qlo, qhi); g.my = r.uni(plo, phi); g.a = r.logu(1e-3, 1e3);
                // mixtures: every other one has a negative component (cells below zero are ordinary in simulated states with unclamped
                // interpolation); it stays weaker than the first component so that the bunch's charge remains positive
                if (k > 0 && k == ng - 1 && (c / 3) % 2 == 1) {
                    // charge of the negative lobe: 5-25 % of what is there, reduced until both widths of the bunch stay well defined
                    double rho = r.uni(0.05, 0.25);
                    for (int t = 0; t < 8; t++) {
                        double wk = -rho * mixW; bool ok = true;
                        for (int ax = 0; ax < 2; ax++) {
                            double mu = ax ? g.my : g.mx, sg = ax ? g.sy : g.sx;
                            double W1 = mixW + wk, m1 = (mixM[ax] + wk * mu) / W1, v1 = (mixS[ax] + wk * (sg * sg + mu * mu)) / W1 - m1 * m1;
                            double v0 = mixS[ax] / mixW - (mixM[ax] / mixW) * (mixM[ax] / mixW);
                            if (!(v1 > 0.4 * v0)) ok = false;
                        }
                        if (ok) break;
                        rho *= 0.5;
                    }
                    g.a = -rho * mixW / (g.sx * g.sy); negative_lobes = true;
                }
                { double w = g.a * g.sx * g.sy; mixW += w; mixM[0] += w * g.mx; mixM[1] += w * g.my; mixS[0] += w * (g.sx * g.sx + g.mx * g.mx); mixS[1] += w * (g.sy * g.sy + g.my * g.my); }
                if (k == 0) gs[b] = g;
                for (uint32_t x = 0; x < n; x++) for (uint32_t y = 0; y < n; y++) {
                    double q = ps->q(x), p = ps->p(y);
                    d[(size_t)x * n + y] += (float)(g.a * std::exp(-0.5 * ((q - g.mx) * (q - g.mx) / (g.sx * g.sx) + (p - g.my) * (p - g.my) / (g.sy * g.sy))));
                }
            }
        }
        // a quarter of the cases: the data already integrate to one in total, but with other shares than the
        // filling pattern asks for (e.g. a grid normalised for another pattern, or a bucket that must be emptied)
        bool prenorm = (c % 4 == 1) && nb > 1;
        if (prenorm) {
            std::vector<double> sh(nb); double ssum = 0;
            for (uint32_t b = 0; b < nb; b++) { sh[b] = r.uni(0.05, 1); ssum += sh[b]; }
            for (uint32_t b = 0; b < nb; b++) {
                // own Simpson integral (double) of the bunch
                double I = 0;
                for (uint32_t x = 0; x < n; x++) { double wx = (x == 0 || x == n - 1) ? 1 : ((x % 2) ? 4 : 2);
                    for (uint32_t y = 0; y < n; y++) { double wy = (y == 0 || y == n - 1) ? 1 : ((y % 2) ? 4 : 2); I += wx * wy * data[b * nn + (size_t)x * n + y]; } }
                I *= d0 * d0 / 9.0;
                if (!(I > 0)) { prenorm = false; break; }
                float f = (float)(sh[b] / ssum / I);
                for (size_t i = 0; i < nn; i++) data[b * nn + i] *= f;
            }
            if (prenorm) M.ev("prenormalised_cases");
        }
        // the renormalisation sequence used by the program
        ps->updateXProjection();
        ps->integrateAndNormalize();
        std::string cls = unequal ? "unequal_cells" : "equal_cells";
        // the order main() uses for its final record: moments are asked right after the renormalisation, while the position
        // projection still is the one from before it - they must be the moments of that projection (normalised by its own charge)
        if (flavour != 2 && (c % 4) >= 2) {
            ps->variance(0);
            auto mean = ps->getMoment(0, 0); auto rms = ps->getBunchLength();
            for (uint32_t b = 0; b < nb; b++) {
                if (fill[b] == 0) continue;
                auto proj = ps->getProjection(0, b);
                double s0 = 0, s1 = 0, s2 = 0;
                for (uint32_t i = 0; i < n; i++) { s0 += proj[i]; s1 += proj[i] * (double)ps->q(i); }
                if (!(s0 > 0)) continue;
                double m1 = s1 / s0; for (uint32_t i = 0; i < n; i++) s2 += proj[i] * ((double)ps->q(i) - m1) * ((double)ps->q(i) - m1);
                double sd = std::sqrt(s2 / s0), ext = (double)ps->getMax(0) - ps->getMin(0);
                if (!(s2 / s0 > 0)) { M.ev("moments_skipped_no_width_defined"); continue; }     // (negative lobe outweighs: second moment not positive, no width to compare)
                double tolm = 5e-4 * sd + 32 * n * EPS * ext, tols = 1e-3 * sd + 32 * n * EPS * ext;
                M.ev("moments_right_after_renormalisation_checked");
                bool ok1 = M.within("moment.after_norm.mean_over_tol", std::fabs((double)mean[b] - m1) / tolm, 1.0);
                bool ok2 = M.within("moment.after_norm.rms_over_tol", std::fabs((double)rms[b] - sd) / tols, 1.0);
                if (!ok1 || !ok2) {
                    vh::J d; d.i("n", n).i("nb", nb).i("bunch", b).n("mean_reported", mean[b]).n("mean_of_projection", m1).n("rms_reported", rms[b]).n("rms_of_projection", sd).n("share_set", fill[b]).n("projection_charge", s0 * d0);
                    M.violation("C09:moment:projection:right_after_renormalisation", "moments asked right after a renormalisation are not the moments of the bunch's (not yet refreshed) position projection", d.str());
                    break;
                }
            }
        }
        ps->updateXProjection();
        ps->integrate();
        auto pop = ps->getBunchPopulation();
        double total = 0;
        for (uint32_t b = 0; b < nb; b++) {
            total += pop[b];
            double tol = 2.0 * n * EPS * std::max((double)fill[b], 1e-30);
            if (fill[b] == 0) {
                M.ev("empty_buckets_checked");
                bool allzero = true; for (size_t i = 0; i < nn; i++) if (data[b * nn + i] != 0) allzero = false;
                if (pop[b] != 0 || !allzero) {
                    vh::J d; d.i("bunch", b).n("population", pop[b]);
                    M.violation("C09:norm:empty_bucket_not_zero", "an empty bucket does not integrate to exactly zero after renormalisation", d.str());
                }
            } else if (!M.within("norm.share_err_over_tol." + cls, std::fabs((double)pop[b] - (double)fill[b]) / tol, 1.0)) {
                vh::J d; d.i("n", n).i("nb", nb).i("bunch", b).n("share_set", fill[b]).n("share_measured", pop[b]).n("tol", tol);
                M.violation("C09:norm:share:" + cls, "a bunch does not integrate to its share of the filling pattern after renormalisation", d.str());
            }
            M.ev("shares_checked");
        }
        if (!M.within("norm.total_err", std::fabs(total - 1.0), 4.0 * n * EPS) || !M.within("norm.integral_err", std::fabs((double)ps->getIntegral() - 1.0), 4.0 * n * EPS)) {
            vh::J d; d.i("n", n).i("nb", nb).n("total", total).n("integral", ps->getIntegral());
            M.violation("C09:norm:total:" + cls, "total charge after renormalisation is not one", d.str());
        }
        // moments
        ps->variance(0);
        ps->updateYProjection();
        ps->variance(1);
        std::vector<double> rep_mean[2], rep_rms[2];
        for (int ax = 0; ax < 2; ax++) {
            auto mean = ps->getMoment(ax, 0);
            auto rms = (ax == 0) ? ps->getBunchLength() : ps->getEnergySpread();
            for (uint32_t b = 0; b < nb; b++) { rep_mean[ax].push_back(mean[b]); rep_rms[ax].push_back(rms[b]); }
        }
        for (int ax = 0; ax < 2; ax++) for (uint32_t b = 0; b < nb; b++) {
            if (fill[b] == 0) {
                if (rep_mean[ax][b] != 0 || rep_rms[ax][b] != 0) {
                    vh::J d; d.i("axis", ax).i("bunch", b).n("mean", rep_mean[ax][b]).n("rms", rep_rms[ax][b]);
                    M.violation("C09:moment:empty_bucket", "an empty bucket reports non-zero moments", d.str());
                }
                continue;
            }
            // (1) the moments of this bunch's own projection: true first and second moment of proj
            auto proj = ps->getProjection(ax, b);
            double s0 = 0, s1 = 0, s2 = 0, sab = 0, dd = (ax == 0) ? d0 : d1;
            double ext = (ax == 0) ? (double)ps->getMax(0) - ps->getMin(0) : (double)ps->getMax(1) - ps->getMin(1);
            for (uint32_t i = 0; i < n; i++) { double u = (ax == 0) ? ps->q(i) : ps->p(i); s0 += proj[i]; s1 += proj[i] * u; sab += std::fabs(proj[i]); }
            double m1 = s1 / s0;
            for (uint32_t i = 0; i < n; i++) { double u = (ax == 0) ? ps->q(i) : ps->p(i); s2 += proj[i] * (u - m1) * (u - m1); }
            double sd = std::sqrt(s2 / s0);
            if (!(s2 / s0 > 0)) { M.ev("moments_skipped_no_width_defined"); continue; }         // (negative lobe outweighs: no width defined for this projection)
            M.ev("moments_checked");
            if (flavour != 2) {
                // smooth, interior data: rectangle and Simpson sums agree far below the tolerance
                double tolm = 5e-4 * sd + 32 * n * EPS * ext, tols = 1e-3 * sd + 32 * n * EPS * ext;
                bool ok1 = M.within("moment.mean_vs_projection_over_tol." + cls, std::fabs(rep_mean[ax][b] - m1) / tolm, 1.0);
                bool ok2 = M.within("moment.rms_vs_projection_over_tol." + cls, std::fabs(rep_rms[ax][b] - sd) / tols, 1.0);
                if (!ok1 || !ok2) {
                    vh::J d; d.i("n", n).i("nb", nb).i("axis", ax).i("bunch", b).n("mean_reported", rep_mean[ax][b]).n("mean_of_projection", m1)
                        .n("rms_reported", rep_rms[ax][b]).n("rms_of_projection", sd).n("delta0", d0).n("delta1", d1);
                    M.violation("C09:moment:projection:axis" + std::to_string(ax) + ":" + cls, "reported mean/width is not the first/second moment of the bunch's projection", d.str());
                }
                if (flavour == 0) {
                    const G& g = gs[b];
                    double mu = ax == 0 ? g.mx : g.my, sg = ax == 0 ? g.sx : g.sy;
                    bool ok3 = M.within("moment.mean_vs_analytic_over_tol." + cls, std::fabs(rep_mean[ax][b] - mu) / (1e-3 * sg + 32 * n * EPS * ext), 1.0);
                    bool ok4 = M.within("moment.rms_vs_analytic_over_tol." + cls, std::fabs(rep_rms[ax][b] - sg) / (2e-3 * sg + 32 * n * EPS * ext), 1.0);
                    M.ev("gaussian_moments_checked");
                    if (!ok3 || !ok4) {
                        vh::J d; d.i("n", n).i("axis", ax).i("bunch", b).n("mean_reported", rep_mean[ax][b]).n("mean_true", mu).n("rms_reported", rep_rms[ax][b]).n("rms_true", sg).n("delta0", d0).n("delta1", d1);
                        M.violation("C09:moment:analytic:axis" + std::to_string(ax) + ":" + cls, "reported mean/width of a Gaussian differs from its true mean/width", d.str());
                    }
                }
            }
        }
        // a copy reports the same
        {
            PhaseSpace cp(*ps);
            bool same = memcmp(cp.getData(), ps->getData(), nn * nb * 4) == 0;
            for (int ax = 0; ax < 2 && same; ax++) for (uint32_t b = 0; b < nb && same; b++) {
                auto a = cp.getProjection(ax, b), o = ps->getProjection(ax, b);
                for (uint32_t i = 0; i < n; i++) if (!vh::bits_equal(a[i], o[i])) same = false;
            }
            if (!vh::bits_equal(cp.getIntegral(), ps->getIntegral())) same = false;
            auto cpop = cp.getBunchPopulation();
            for (uint32_t b = 0; b < nb; b++) if (!vh::bits_equal(cpop[b], pop[b])) same = false;
            cp.variance(0); cp.variance(1);
            for (int ax = 0; ax < 2; ax++) for (uint32_t b = 0; b < nb; b++) {
                auto mean = cp.getMoment(ax, 0); auto rms = (ax == 0) ? cp.getBunchLength() : cp.getEnergySpread();
                if (!vh::bits_equal((float)rep_mean[ax][b], mean[b]) || !vh::bits_equal((float)rep_rms[ax][b], rms[b])) same = false;
            }
            M.ev("copies_checked");
            { bool anyneg = false; for (size_t i = 0; i < nn * nb && !anyneg; i++) if (data[i] < 0) anyneg = true; if (anyneg) M.ev("copies_checked_with_negative_cells"); }
            if (!same) {
                vh::J d; d.i("n", n).i("nb", nb);
                M.violation("C09:copy", "a copy of a phase space does not report the same data, projections, integral or moments", d.str());
            }
        }
        // no other bunch's data matters
        if (nb > 1) {
            uint32_t j = (uint32_t)r.range(0, nb - 1);
            for (size_t i = 0; i < nn; i++) data[j * nn + i] = data[j * nn + i] * 0.5f + (float)(i % 7) * 1e-3f;
            ps->updateXProjection(); ps->integrate(); ps->variance(0); ps->updateYProjection(); ps->variance(1);
            for (int ax = 0; ax < 2; ax++) {
                auto mean = ps->getMoment(ax, 0); auto rms = (ax == 0) ? ps->getBunchLength() : ps->getEnergySpread();
                for (uint32_t b = 0; b < nb; b++) {
                    if (b == j) continue;
                    M.ev("independence_checked");
                    if (!vh::bits_equal((float)rep_mean[ax][b], mean[b]) || !vh::bits_equal((float)rep_rms[ax][b], rms[b])) {
                        vh::J d; d.i("n", n).i("nb", nb).i("axis", ax).i("bunch", b).i("changed_bunch", j);
                        M.violation("C09:moment:depends_on_other_bunch", "a bunch's reported moments change when another bunch's data changes", d.str());
                    }
                }
            }
        }
        if (weak >= 0) M.ev("cases_with_a_very_weak_bunch");
        // moments do not depend on the amplitude: the same data scaled down by many orders of magnitude (a Gaussian of "any amplitude",
        // not renormalised) must report the same means and widths
        if (flavour != 2 && c % 5 >= 3) {
            ps->updateXProjection(); ps->integrate(); ps->variance(0); ps->updateYProjection(); ps->variance(1);
            std::vector<double> m0[2], w0[2];
            for (int ax = 0; ax < 2; ax++) { auto mean = ps->getMoment(ax, 0); auto rms = (ax == 0) ? ps->getBunchLength() : ps->getEnergySpread();
                for (uint32_t b = 0; b < nb; b++) { m0[ax].push_back(mean[b]); w0[ax].push_back(rms[b]); } }
            float f = (float)r.logu(1e-12, 1e-3);
            for (size_t i = 0; i < nn * nb; i++) data[i] *= f;
            ps->updateXProjection(); ps->integrate(); ps->variance(0); ps->updateYProjection(); ps->variance(1);
            for (int ax = 0; ax < 2; ax++) {
                auto mean = ps->getMoment(ax, 0); auto rms = (ax == 0) ? ps->getBunchLength() : ps->getEnergySpread();
                double ext = (ax == 0) ? (double)ps->getMax(0) - ps->getMin(0) : (double)ps->getMax(1) - ps->getMin(1);
                for (uint32_t b = 0; b < nb; b++) {
                    if (fill[b] == 0 || !(w0[ax][b] > 0)) continue;
                    if ((double)fill[b] * f < 1e-30) continue;      // (would underflow single precision: outside "any amplitude" for float data)
                    M.ev("scaled_down_moments_checked");
                    double tol = 1e-4 * w0[ax][b] + 32 * n * EPS * ext;
                    bool ok1 = M.within("moment.scale_invariance_mean_over_tol", std::fabs((double)mean[b] - m0[ax][b]) / tol, 1.0);
                    bool ok2 = M.within("moment.scale_invariance_rms_over_tol", std::fabs((double)rms[b] - w0[ax][b]) / tol, 1.0);
                    if (!ok1 || !ok2) {
                        vh::J d; d.i("n", n).i("nb", nb).i("axis", ax).i("bunch", b).n("factor", f).n("share", fill[b]).n("mean_before", m0[ax][b]).n("mean_after", mean[b]).n("rms_before", w0[ax][b]).n("rms_after", rms[b]);
                        M.violation("C09:moment:depends_on_amplitude", "reported mean/width changes when the whole distribution is scaled by a constant factor", d.str());
                    }
                }
            }
        }
        M.sig(vh::hmix(vh::hmix(n, nb * 8 + flavour), (uint64_t)(int64_t)(L * 1e6) ^ (uint64_t)(int64_t)(gs[0].mx * 1e6)));
        { vh::J j; j.i("n", n).i("nb", nb).n("extent_q", L).n("extent_p", Lp).i("flavour", flavour).arr("filling", fill); M.sample(j.str()); }
    }
    M.finish();
    return 0;
}
