// C01 monitor: every transport step conserves the plain sum of an interior-supported
// distribution; operator column sums via unit impulses; FP defect confined + proportional.
#include "maps.hpp"

using namespace vfps;
using namespace vm;
static vh::Monitor M;

static const double EPS = 5.9604644775390625e-08;  // 2^-24

static Spec random_spec(Rng& r, long c, bool small) {
    Spec s;
    s.kind = (Kind)(c % K_NKINDS);
    static const uint32_t odd[] = {9, 15, 21, 33, 47, 65};
    s.n = small ? (uint32_t)r.range(10, 24) : (r.chance(0.25) ? odd[r.range(0, 5)] : (uint32_t)r.range(8, M.thorough() ? 128 : 96));
    s.nb = (uint32_t)r.range(1, 3);
    // scale: one case in twelve is large in one dimension - cells per axis beyond 256 / 512 / 1024 / 2048 (also with displacements of more
    // than 1024 cells), bunch counts beyond 16 and beyond 256 (index types, blocked or grouped loops, fixed-size tables)
    if (!small && (c / K_NKINDS) % 12 == 7) {
        static const uint32_t big_n[] = {257, 300, 513, 520, 1030, 2100, 4200};
        static const uint32_t big_nb[] = {17, 20, 33, 40, 257, 300};
        if (r.chance(0.5)) { s.n = big_n[r.range(0, 6)]; s.nb = (s.n > 1100) ? 1 : (uint32_t)r.range(1, 2); }
        else { s.nb = big_nb[r.range(0, 5)]; s.n = (uint32_t)r.range(12, 20); }
        M.ev("scale_cases");
    }
    s.it = 1 + (int)((c / K_NKINDS) % 4);
    if (r.chance(0.5)) { s.shiftx = r.uni(-3, 3); s.shifty = r.uni(-3, 3); }
    double amp = std::max(0.0, std::min(s.n / 4.0, (s.n - 8) / 2.0 - 1));
    if (r.chance(0.3)) amp = std::min(amp, 1.5);
    switch (s.kind) {
    case K_KICKX: case K_KICKY: {
        s.off.clear();
        for (uint32_t b = 0; b < s.nb; b++) {
            auto f = gen_field(r, s.n, amp, (int)r.range(0, 5));
            s.off.insert(s.off.end(), f.begin(), f.end());
        }
        break; }
    case K_RF_LIN: s.angle = r.chance(0.1) ? 0.0 : r.uni(-1, 1) * std::atan(amp / (s.n / 2.0 + 3)); break;
    case K_RF_SIN: {
        // constant offset revpart*(V0-V)/(delta_E*scale): aim at |offset| <= amp
        double dE = s.pqsize / (s.n - 1) * s.pscale;
        s.V = 1e6; s.V0 = r.uni(0, 0.9) * s.V;
        s.revpart = r.uni(-1, 1) * amp * dE / (s.V + s.V0);
        break; }
    case K_DRIFT: {
        int ns = (int)r.range(1, 3);
        double a = r.uni(-1, 1) * amp / (s.n / 2.0 + 3);
        s.slip = {(float)a};
        if (ns > 1) s.slip.push_back((float)(a * r.uni(-200, 200)));
        if (ns > 2) s.slip.push_back((float)(a * r.uni(-2e4, 2e4)));
        break; }
    case K_WAKE: {
        s.buckets.clear();
        uint32_t nbuckets = s.nb + (uint32_t)r.range(0, 2);
        std::vector<uint32_t> all; for (uint32_t k = 0; k < nbuckets; k++) all.push_back(nbuckets - 1 - k);
        // choose nb of them (keep descending order as main does)
        while (all.size() > s.nb) all.erase(all.begin() + r.range(0, (int64_t)all.size() - 1));
        s.buckets = all;
        s.spacing = (nbuckets > 1) ? s.n + (uint32_t)r.range(0, s.n) : 0;
        size_t need = (size_t)(nbuckets - 1) * s.spacing + s.n;
        s.nmax = 64; while (s.nmax < need * (r.chance(0.5) ? 2 : 1)) s.nmax *= 2;
        s.Z.assign(s.nmax, {0, 0});
        for (size_t k = 0; k < s.nmax; k++) s.Z[k] = {(float)r.uni(-1, 1), (float)r.uni(-1, 1)};
        break; }
    case K_FP: {
        s.fptype = (int)r.range(0, 3); s.deriv = r.chance(0.5) ? 3 : 4;
        double d = s.pqsize / (s.n - 1);
        s.e1 = r.logu(1e-5, 1e-2);
        if (s.e1 / (d * d) > 0.4) s.e1 = 0.4 * d * d;   // explicit scheme's stable range
        // one case in six: diffusion numbers beyond the stable range (few steps per period on a fine mesh, e.g. -N 10): iterating such a
        // map diverges, but a single application still hands out every cell's charge exactly once
        if ((c / K_NKINDS) % 6 == 5) { s.e1 = std::min(0.05, r.uni(0.55, 1.8) * d * d); }
        break; }
    default: break;
    }
    return s;
}

static double max_abs_offset(const Built& b, const Spec& s, uint32_t nb) {
    if (!b.kick) return 0;
    const meshaxis_t* f = b.kick->getForce();
    double m = 0;
    for (size_t i = 0; i < (size_t)s.n * nb; i++) m = std::max(m, std::fabs((double)f[i]));
    return m;
}

// scale the random impedance so that the wake of this data displaces by at most `target` cells
static bool tune_wake(Spec& s, Built& b, Rng& r, uint32_t m, int flavour, double target) {
    for (int pass = 0; pass < 3; pass++) {
        Rng rr = r;  // same data each pass
        fill_data(rr, b.in->getData(), s.n, s.nb, m, flavour);
        b.in->updateXProjection();
        b.wake->update();
        double mx = max_abs_offset(b, s, s.nb);
        if (mx <= target && (mx > 0.05 * target || pass == 2)) { r = rr; return std::isfinite(mx); }
        double f = (mx > 0 && std::isfinite(mx)) ? 0.7 * target / mx : 1e-3;
        for (auto& z : s.Z) z *= (float)f;
        b = build(s, s.nb);
    }
    return false;
}

static void mode_data() {
    for (long c = M.from; c < M.from + M.count; c++) {
        Rng r(M.seed, c, 11);
        Spec s = random_spec(r, c, false);
        int flavour = (int)r.range(0, 2);
        M.begin_case(c, s.descr());
        vh::set_grid(s.n, s.nb);
        Built b = build(s, s.nb);
        if ((s.kind == K_KICKX || s.kind == K_KICKY)) {
            // one kick map in eight has a history: the same table, then one with rows that do not fit the grid, then the table again
            if ((c / K_NKINDS) % 8 == 6) { kick_history_through_far_offsets(*b.kick, s.off, s.n, (uint64_t)c); M.ev("kick_maps_with_a_history_through_offsets_beyond_the_grid"); }
            auto o = s.off; b.kick->swapOffset(o);
        }
        uint32_t m;
        float* din = b.in->getData();
        const size_t N = (size_t)s.nb * s.n * s.n;
        if (s.kind == K_WAKE) {
            m = s.n / 4 + 1;
            double target = (double)m - 3.5;
            if (target < 0.3 || !tune_wake(s, b, r, m, flavour, target)) { M.cases--; continue; }
            din = b.in->getData();
        } else {
            m = (uint32_t)std::ceil(max_abs_offset(b, s, s.nb)) + 3;
            if (2 * m + 1 > s.n) { M.cases--; continue; }      // nothing fits: not a case
            fill_data(r, din, s.n, s.nb, m, flavour);
        }
        double sin_ = sum_all(din, N), sabs = sum_abs(din, N);
        if (sabs == 0) { M.cases--; continue; }
        float* dout = b.out->getData();
        std::fill(dout, dout + N, 7.0f);      // (cells the map does not write keep this value and show up in the sum)
        // one application in sixteen happens while a stop request is pending (Ctrl+C sets Display::abort; the program finishes the step
        // in progress): a transport step conserves charge whatever that flag says
        const bool pending = ((c / K_NKINDS) % 8 == 3);
        if (pending) { Display::abort = true; M.ev("applications_with_stop_request_pending"); }
        b.map->apply();
        if (pending) Display::abort = false;
        double sout = sum_all(dout, N);
        // support must stay clear of the border after the step too (generator guarantee; verify)
        double edge = 0;
        for (uint32_t bb = 0; bb < s.nb; bb++) for (uint32_t k = 0; k < s.n; k++) {
            const float* o = dout + (size_t)bb * s.n * s.n;
            edge += std::fabs(o[k]) + std::fabs(o[(size_t)(s.n - 1) * s.n + k]) + std::fabs(o[(size_t)k * s.n]) + std::fabs(o[(size_t)k * s.n + s.n - 1]);
        }
        int ip = (s.kind == K_FP) ? s.deriv : (s.kind == K_IDENT ? 1 : s.it);
        double tol = 4.0 * EPS * sabs * (ip + 1);
        double allowed = 0;
        if (s.kind == K_FP) {
            double d = s.pqsize / (s.n - 1);
            tol *= (1 + 4 * s.e1 / (d * d));
            if (s.deriv == 4 && s.fptype != 0 && s.fptype != 2) {
                // tolerated defect: proportional to e1, only from charge in the rows next to zero energy
                double zb = b.in->getAxis(1)->zerobin(), near = 0;
                for (uint32_t bb = 0; bb < s.nb; bb++) for (uint32_t x = 0; x < s.n; x++) for (uint32_t y = 0; y < s.n; y++)
                    if (std::fabs((double)y - zb) <= 3.0) near += std::fabs((double)din[(size_t)bb * s.n * s.n + (size_t)x * s.n + y]);
                allowed = 1.5 * s.e1 * near;
            }
        }
        double err = std::fabs(sout - sin_);
        std::string rn = std::string("charge_err_over_tol.") + KNAME[s.kind];
        bool ok = M.within(rn, std::max(0.0, err - allowed) / tol, 1.0);
        M.ev(std::string("applications.") + KNAME[s.kind]);
        M.ev("map_applications");
        if (edge != 0) M.ev("generator_edge_contact");   // should stay 0: else the case was not 'interior'
        // (on the unchanged code the output never touches the border - the generator keeps ceil(max|offset|)+3 cells clear - so charge that
        //  disagrees *and* sits on the border afterwards, e.g. cells the map never wrote, is the map's doing, not the generator's)
        if (!ok) {
            vh::J d; d.s("map", KNAME[s.kind]).i("n", s.n).i("nb", s.nb).i("order", s.it).n("sum_in", sin_).n("sum_out", sout)
                .n("sum_abs", sabs).n("tol", tol).n("allowed_fp_defect", allowed).i("margin", m).s("spec", s.descr());
            M.violation(std::string("C01:charge:") + KNAME[s.kind] + (s.nb > 1 ? ":multibunch" : ""),
                        "transport step changes the total charge of an interior-supported distribution", d.str());
        }
        uint64_t h = vh::hmix(vh::hmix(s.kind, s.n * 16 + s.nb * 4 + s.it), vh::hdata(din, std::min<size_t>(N, 4096) * 4));
        M.sig(h);
        { vh::J j; j.s("class", "data").s("spec", s.descr()).i("margin", m).i("data_flavour", flavour).n("sum_in", sin_).n("sum_out", sout).n("tol", tol); M.sample(j.str()); }
    }
}

// operator column sums by unit impulses on small grids
static void mode_impulse() {
    for (long c = M.from; c < M.from + M.count; c++) {
        Rng r(M.seed, c, 12);
        Spec s = random_spec(r, c, true);
        s.nb = (uint32_t)r.range(1, 2);
        if (s.kind == K_WAKE || s.kind == K_IDENT) s.kind = (c % 2) ? K_FP : K_KICKY;   // wake = kick_y with data-dependent offsets (data mode)
        if (s.kind == K_KICKX || s.kind == K_KICKY) {
            s.off.clear();
            double amp = std::max(0.0, std::min(s.n / 4.0, (s.n - 8) / 2.0 - 1));
            for (uint32_t b = 0; b < s.nb; b++) { auto f = gen_field(r, s.n, amp, (int)r.range(0, 5)); s.off.insert(s.off.end(), f.begin(), f.end()); }
        }
        M.begin_case(c, "impulse " + s.descr());
        vh::set_grid(s.n, s.nb);
        const size_t N = (size_t)s.nb * s.n * s.n;
        if (s.kind != K_FP) {
            Built b = build(s, s.nb);
            if (s.kind == K_KICKX || s.kind == K_KICKY) { auto o = s.off; b.kick->swapOffset(o); }
            uint32_t m = (uint32_t)std::ceil(max_abs_offset(b, s, s.nb)) + 3;
            if (2 * m + 1 > s.n) { M.cases--; continue; }
            float* din = b.in->getData(); float* dout = b.out->getData();
            std::fill(din, din + N, 0.0f);
            long cols = 0;
            for (uint32_t bb = 0; bb < s.nb; bb++) for (uint32_t x = m; x + m < s.n; x++) for (uint32_t y = m; y + m < s.n; y++) {
                size_t idx = (size_t)bb * s.n * s.n + (size_t)x * s.n + y;
                din[idx] = 1.0f;
                b.map->apply();
                double cs = sum_all(dout, N);
                din[idx] = 0.0f;
                cols++;
                if (!M.within(std::string("column_sum_err.") + KNAME[s.kind], std::fabs(cs - 1.0), 2e-6)) {
                    vh::J d; d.s("map", KNAME[s.kind]).i("n", s.n).i("nb", s.nb).i("order", s.it).i("bunch", bb).i("x", x).i("y", y).n("column_sum", cs).s("spec", s.descr());
                    M.violation(std::string("C01:column:") + KNAME[s.kind] + (bb > 0 ? ":bunch>0" : ""),
                                "a unit impulse does not keep unit total charge (operator column sum != 1)", d.str());
                }
            }
            M.ev("impulse_columns", cols);
            if (cols) M.sig(vh::hmix(vh::hmix(s.kind, s.n * 16 + s.nb * 4 + s.it), vh::hdata(b.kick->getForce(), 4 * s.n * s.nb)));
            { vh::J j; j.s("class", "impulse").s("spec", s.descr()).i("columns", cols); M.sample(j.str()); }
            continue;
        }
        // Fokker-Planck: columns for two decrements e1 and 2*e1
        double colsum[2][64];
        double e1v[2] = {s.e1 / 2, s.e1};
        double zb = 0;
        for (int pass = 0; pass < 2; pass++) {
            Spec t = s; t.e1 = e1v[pass];
            Built b = build(t, s.nb);
            zb = b.in->getAxis(1)->zerobin();
            float* din = b.in->getData(); float* dout = b.out->getData();
            std::fill(din, din + N, 0.0f);
            uint32_t bb = s.nb - 1, x = s.n / 2;
            for (uint32_t y = 0; y < s.n; y++) {
                size_t idx = (size_t)bb * s.n * s.n + (size_t)x * s.n + y;
                din[idx] = 1.0f;
                b.map->apply();
                colsum[pass][y] = sum_all(dout, N);
                din[idx] = 0.0f;
            }
        }
        double d = s.pqsize / (s.n - 1);
        double rtol = 8 * EPS * (1 + 4 * s.e1 / (d * d)) * 5;
        long cols = 0;
        for (uint32_t y = 4; y + 4 < s.n; y++) {
            double def1 = colsum[0][y] - 1, def2 = colsum[1][y] - 1;
            bool near = (s.deriv == 4) && std::fabs((double)y - zb) <= 3.0 && s.fptype != 0 && s.fptype != 2;
            cols++;
            if (!near) {
                if (!M.within("fp_column_sum_err_over_tol", std::max(std::fabs(def1), std::fabs(def2)) / rtol, 1.0)) {
                    vh::J j; j.i("n", s.n).i("row", y).n("zerobin", zb).n("e1", s.e1).i("fptype", s.fptype).i("deriv", s.deriv).n("defect", def2);
                    M.violation("C01:fp:column:outside_band", "Fokker-Planck column sum differs from one outside the stencil-switch rows", j.str());
                }
            } else {
                M.ev("fp_band_rows");
                if (!M.within("fp_band_defect_over_e1", std::fabs(def2) / s.e1, 1.5)) {
                    vh::J j; j.i("n", s.n).i("row", y).n("zerobin", zb).n("e1", s.e1).n("defect", def2);
                    M.violation("C01:fp:column:band_magnitude", "Fokker-Planck defect next to zero energy exceeds 1.5 decrements", j.str());
                }
                if (std::fabs(def2) > 200 * rtol) {
                    double ratio = def2 / def1;
                    if (!M.within("fp_band_defect_ratio_dev", std::fabs(ratio - 2.0), 0.1)) {
                        vh::J j; j.i("n", s.n).i("row", y).n("e1", s.e1).n("defect_e1", def2).n("defect_half_e1", def1);
                        M.violation("C01:fp:column:band_scaling", "Fokker-Planck defect is not proportional to the damping decrement", j.str());
                    }
                    M.ev("fp_band_ratio_checked");
                }
            }
        }
        M.ev("fp_columns", cols);
        M.sig(vh::hmix(vh::hmix(77, s.n * 16 + s.fptype * 4 + s.deriv), (uint64_t)(s.e1 * 1e12)));
        { vh::J j; j.s("class", "fp_columns").s("spec", s.descr()).i("columns", cols).n("zerobin", zb); M.sample(j.str()); }
    }
}

int main(int argc, char** argv) {
    M.parse(argc, argv);
    std::string mode = M.opt("--mode", "data");
    if (mode == "data") mode_data(); else mode_impulse();
    M.finish();
    return 0;
}
