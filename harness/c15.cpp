// C15 monitor: tracked particles follow the flow of the distribution and never leave the grid.
//  mode follow:   blob centroid after apply() vs particle after applyTo() (kicks, drift, RF, wake)
//  mode ingrid:   every coordinate finite and inside [0, n-1] after every applyTo, all maps, all FP tracking models, edge particles
//  mode ensemble: N particles from the equilibrium keep mean and width under RF + drift + stochastic FP
#include "maps.hpp"

using namespace vfps;
using namespace vm;
static vh::Monitor M;

static Spec kick_spec(Rng& r, long c, int nk, bool smooth) {
    Spec s;
    static const Kind ks[] = {K_KICKX, K_KICKY, K_RF_LIN, K_RF_SIN, K_DRIFT, K_WAKE};
    s.kind = ks[c % nk];
    s.n = (uint32_t)r.range(32, M.thorough() ? 256 : 128);
    s.nb = 1; s.it = 2 + (int)((c / nk) % 3);
    if (r.chance(0.5)) { s.shiftx = r.uni(-3, 3); s.shifty = r.uni(-3, 3); }
    double amp = s.n / 8.0;
    switch (s.kind) {
    case K_KICKX: case K_KICKY: s.off = gen_field(r, s.n, amp, smooth ? (int)r.range(0, 2) : (int)r.range(0, 5)); break;
    case K_RF_LIN: s.angle = r.uni(-1, 1) * std::atan(amp / (s.n / 2.0 + 3)); break;
    case K_RF_SIN: { double dE = s.pqsize / (s.n - 1) * s.pscale; s.V = 1e6; s.V0 = r.uni(0, 0.5) * s.V; s.revpart = r.uni(-1, 1) * amp * dE / (s.V + s.V0); break; }
    case K_DRIFT: { double a = r.uni(-1, 1) * amp / (s.n / 2.0 + 3); s.slip = {(float)a}; if (r.chance(0.5)) s.slip.push_back((float)(a * r.uni(-100, 100))); break; }
    case K_WAKE: { s.buckets = {0}; s.spacing = 0; s.nmax = 64; while (s.nmax < 4 * s.n) s.nmax *= 2; s.Z.resize(s.nmax);
                   for (size_t k = 0; k < s.nmax; k++) { double dec = std::exp(-(double)k / (0.05 * s.nmax)); s.Z[k] = {(float)(dec * r.uni(0, 1)), (float)(dec * r.uni(-1, 1))}; } break; }
    default: break;
    }
    return s;
}

static bool finite_inside(const PhaseSpace::Position& p, uint32_t n) {
    return std::isfinite(p.x) && std::isfinite(p.y) && p.x >= 0 && p.y >= 0 && p.x <= (float)(n - 1) && p.y <= (float)(n - 1);
}

static void mode_follow() {
    for (long c = M.from; c < M.from + M.count; c++) {
        Rng r(M.seed, c, 1501);
        Spec s = kick_spec(r, c, 6, true);
        M.begin_case(c, "follow " + s.descr());
        vh::set_grid(s.n, 1);
        Built b = build(s, 1);
        if (s.kind == K_KICKX || s.kind == K_KICKY) {
            if ((c / 8) % 6 == 4) { kick_history_through_far_offsets(*b.kick, s.off, s.n, (uint64_t)c); M.ev("kick_maps_with_a_history_through_offsets_beyond_the_grid"); }
            auto o = s.off; b.kick->swapOffset(o);
        }
        const size_t nn = (size_t)s.n * s.n;
        float* din = b.in->getData();
        if (s.kind == K_WAKE) {
            // wake of a central Gaussian bunch, scaled to a few cells
            for (int pass = 0; pass < 3; pass++) {
                for (uint32_t x = 0; x < s.n; x++) for (uint32_t y = 0; y < s.n; y++)
                    din[(size_t)x * s.n + y] = (float)std::exp(-0.5 * (std::pow((x - s.n / 2.0) / (s.n / 12.0), 2) + std::pow((y - s.n / 2.0) / (s.n / 12.0), 2)));
                b.in->updateXProjection(); b.wake->update();
                double mx = 0; for (uint32_t i = 0; i < s.n; i++) mx = std::max(mx, std::fabs((double)b.kick->getForce()[i]));
                if (mx <= s.n / 8.0 && mx > 0.2) break;
                double f = mx > 0 ? 0.6 * (s.n / 8.0) / mx : 1e-3;
                for (auto& z : s.Z) z *= (float)f;
                b = build(s, 1); din = b.in->getData();
            }
        }
        const meshaxis_t* off = b.kick->getForce();
        double mx = 0; for (uint32_t i = 0; i < s.n; i++) mx = std::max(mx, std::fabs((double)off[i]));
        uint32_t m = (uint32_t)std::ceil(mx) + 7;
        if (2 * m + 2 > s.n) { M.cases--; continue; }
        bool alongx = b.kick_along_x;
        int np = 12;
        for (int k = 0; k < np; k++) {
            double px = r.uni(m, s.n - 1 - m), py = r.uni(m, s.n - 1 - m), sg = 1.5;
            if (r.chance(0.3)) { px = std::round(px); py = std::round(py); }
            std::fill(din, din + nn, 0.0f);
            for (int x = (int)px - 6; x <= (int)px + 7; x++) for (int y = (int)py - 6; y <= (int)py + 7; y++)
                din[(size_t)x * s.n + y] = (float)std::exp(-0.5 * ((x - px) * (x - px) + (y - py) * (y - py)) / (sg * sg));
            // centroid before (the blob is sampled, so use its own centroid) and weighted mean of the displacement over the blob
            double s0 = 0, cx0 = 0, cy0 = 0, woff = 0;
            for (uint32_t x = 0; x < s.n; x++) for (uint32_t y = 0; y < s.n; y++) { double v = din[(size_t)x * s.n + y]; s0 += v; cx0 += v * x; cy0 += v * y; woff += v * (double)off[alongx ? y : x]; }
            cx0 /= s0; cy0 /= s0; woff /= s0;
            b.map->apply();
            const float* dout = b.out->getData();
            double s1 = 0, cx1 = 0, cy1 = 0;
            for (uint32_t x = 0; x < s.n; x++) for (uint32_t y = 0; y < s.n; y++) { double v = dout[(size_t)x * s.n + y]; s1 += v; cx1 += v * x; cy1 += v * y; }
            cx1 /= s1; cy1 /= s1;
            PhaseSpace::Position p{(float)cx0, (float)cy0};
            b.map->applyTo(p);
            // the particle uses the displacement interpolated at its own position; the blob the blob-weighted mean: their difference is the curvature allowance
            double perp = alongx ? cy0 : cx0; uint32_t i0 = (uint32_t)perp; double fr = perp - i0;
            double interp = (1 - fr) * off[i0] + fr * off[i0 + 1];
            double curv = std::fabs(woff - interp);
            double err = std::hypot((double)p.x - cx1, (double)p.y - cy1);
            M.ev("particles_followed");
            M.ev(std::string("follow.") + KNAME[s.kind]);
            if (!M.within(std::string("follow_err_cells.") + KNAME[s.kind], std::max(0.0, err - curv), 1e-3)) {
                vh::J d; d.s("spec", s.descr()).n("x0", cx0).n("y0", cy0).n("blob_x1", cx1).n("blob_y1", cy1).n("particle_x1", p.x).n("particle_y1", p.y).n("displacement_at_particle", interp).n("curvature_allowance", curv);
                M.violation(std::string("C15:follow:") + KNAME[s.kind], "tracked particle does not move with the charge around it", d.str());
                break;
            }
        }
        M.sig(vh::hmix(vh::hmix(s.kind, s.n * 8 + s.it), vh::hdata(off, 4 * s.n)));
        { vh::J j; j.s("class", "follow").s("spec", s.descr()).n("max_displacement", mx); M.sample(j.str()); }
    }
}

// follow, dynamic RF: the kick table changes from step to step (phase modulation, phase and amplitude noise);
// the particle moved after step k must have received the kick the charge received in step k
static void mode_followdyn() {
    const double bl2 = 1e-3 / physcons::c * 5e8 * 6.283185307179586;     // RF phase per unit of q (Spec: qscale 1e-3, fRF 5e8)
    for (long c = M.from; c < M.from + M.count; c++) {
        Rng r(M.seed, c, 1504);
        Spec s; s.n = (uint32_t)r.range(48, M.thorough() ? 192 : 128); s.nb = 1; s.it = 2 + (int)(c % 3);
        bool linear = (c / 3) % 2 == 0;
        int dyn = (int)((c / 6) % 3);          // 0 phase modulation, 1 noise, 2 both
        if (r.chance(0.5)) { s.shiftx = r.uni(-3, 3); s.shifty = r.uni(-3, 3); }
        s.kind = linear ? K_RF_LIN : K_RF_SIN;
        const double d = s.pqsize / (s.n - 1), amp = s.n / 8.0;
        double K;                              // cells of kick per radian of RF phase
        if (linear) { s.angle = (r.chance(0.5) ? 1 : -1) * r.uni(0.2, 1) * std::atan(amp / (s.n / 2.0 + 3)); K = std::fabs(std::tan(s.angle)) / (bl2 * d); }
        else { double dE = d * s.pscale; s.V = 1e6; s.V0 = r.uni(0, 0.5) * s.V; K = r.uni(0.2, 1) * amp / (bl2 * (s.pqsize / 2 + 3 * d)); s.revpart = K * dE / s.V; }
        const double Amax = (s.n / 16.0) / K;
        double modampl = 0, modinc = 0, sphi = 0, sampl = 0;
        if (dyn != 1) { modampl = r.uni(0.1, 1) * Amax; modinc = r.uni(0.02, 0.3); }
        if (dyn != 0) { sphi = r.uni(0.05, 1) * Amax / 5; sampl = r.chance(0.5) ? r.uni(0.002, 0.02) : 0; }
        const uint32_t nsteps = 12;
        // the noise amplitudes are given per sqrt(revolution part)
        const double rp = linear ? 1e-3 : s.revpart;
        std::ostringstream ds; ds << "followdyn " << s.descr() << " K=" << K << " modampl=" << modampl << " modinc=" << modinc << " phase_sigma=" << sphi << " ampl_sigma=" << sampl;
        M.begin_case(c, ds.str());
        vh::set_grid(s.n, 1);
        auto fill = filling_for(1);
        auto in = grid_for(s, fill), out = grid_for(s, fill);
        auto it = (SourceMap::InterpolationType)s.it;
        std::unique_ptr<DynamicRFKickMap> map;
        if (linear) map.reset(new DynamicRFKickMap(in, out, s.n, s.n, (meshaxis_t)s.angle, rp, s.fRF, (meshaxis_t)(sphi * std::sqrt(rp)), (meshaxis_t)(sampl * std::sqrt(rp)),
                                                   (meshaxis_t)modampl, modinc, nsteps + 4, it, false, nullptr));
        else map.reset(new DynamicRFKickMap(in, out, s.n, s.n, rp, s.V, s.fRF, s.V0, (meshaxis_t)(sphi * std::sqrt(rp)), (meshaxis_t)(sampl * std::sqrt(rp)),
                                            (meshaxis_t)modampl, modinc, nsteps + 4, it, false, nullptr));
        const size_t nn = (size_t)s.n * s.n;
        float* din = in->getData();
        uint32_t m = (uint32_t)std::ceil(s.n / 4.0) + 7;
        double kick_range = 0, prev_kick = 0;
        for (uint32_t k = 0; k < nsteps; k++) {
            double px = r.uni(m, s.n - 1 - m), py = r.uni(m, s.n - 1 - m), sg = 1.5;
            std::fill(din, din + nn, 0.0f);
            for (int x = (int)px - 6; x <= (int)px + 7; x++) for (int y = (int)py - 6; y <= (int)py + 7; y++)
                din[(size_t)x * s.n + y] = (float)std::exp(-0.5 * ((x - px) * (x - px) + (y - py) * (y - py)) / (sg * sg));
            double s0 = 0, cx0 = 0, cy0 = 0;
            for (uint32_t x = 0; x < s.n; x++) for (uint32_t y = 0; y < s.n; y++) { double v = din[(size_t)x * s.n + y]; s0 += v; cx0 += v * x; cy0 += v * y; }
            cx0 /= s0; cy0 /= s0;
            map->apply();
            const float* dout = out->getData();
            double s1 = 0, cx1 = 0, cy1 = 0;
            for (uint32_t x = 0; x < s.n; x++) for (uint32_t y = 0; y < s.n; y++) { double v = dout[(size_t)x * s.n + y]; s1 += v; cx1 += v * x; cy1 += v * y; }
            cx1 /= s1; cy1 /= s1;
            PhaseSpace::Position p{(float)cx0, (float)cy0};
            map->applyTo(p);
            // curvature allowance from the table itself (tables of neighbouring steps have the same curvature scale)
            const meshaxis_t* off = map->getForce();
            double c2 = 0, mx = 0;
            for (uint32_t i = 1; i + 1 < s.n; i++) c2 = std::max(c2, std::fabs((double)off[i - 1] - 2.0 * off[i] + off[i + 1]));
            for (uint32_t i = 0; i < s.n; i++) mx = std::max(mx, std::fabs((double)off[i]));
            if (mx > s.n / 4.0 + 1) { M.ev("followdyn_kick_beyond_margin"); break; }     // (a 5 sigma noise sample: blob may have left the interior)
            double err = std::hypot((double)p.x - cx1, (double)p.y - cy1);
            double moved = cy1 - cy0;
            if (k) kick_range = std::max(kick_range, std::fabs(moved - prev_kick));
            prev_kick = moved;
            M.ev("particles_followed_dynamic_rf");
            M.ev(std::string("followdyn.") + (linear ? "linear" : "sinus") + (dyn == 0 ? ".modulation" : dyn == 1 ? ".noise" : ".both"));
            if (!M.within(std::string("followdyn_err_cells.") + (linear ? "linear" : "sinus"), std::max(0.0, err - 2.25 * c2), 1e-3)) {
                vh::J dj; dj.s("spec", ds.str()).i("step", k).n("x0", cx0).n("y0", cy0).n("blob_x1", cx1).n("blob_y1", cy1).n("particle_x1", p.x).n("particle_y1", p.y).n("curvature_allowance", 2.25 * c2);
                M.violation(std::string("C15:follow:dynamic_rf:") + (linear ? "linear" : "sinus"), "tracked particle does not receive the RF kick the charge around it received in the same step", dj.str());
                break;
            }
        }
        if (kick_range > 0.01) M.ev("followdyn_cases_with_kick_changing_between_steps");
        M.sig(vh::hmix(vh::hmix(s.n * 8 + s.it, (uint64_t)linear * 4 + dyn), (uint64_t)(int64_t)(K * 1e6)));
        { vh::J j; j.s("class", "followdyn").s("spec", ds.str()).n("step_to_step_kick_change", kick_range); M.sample(j.str()); }
    }
}

static void mode_ingrid() {
    for (long c = M.from; c < M.from + M.count; c++) {
        Rng r(M.seed, c, 1502);
        bool fp = (c % 3 == 2);
        Spec s;
        if (!fp) { s = kick_spec(r, c, 5, false); if (r.chance(0.3)) for (auto& o : s.off) o *= 3.5f; }   // displacements up to 0.44 of the grid
        else { s.kind = K_FP; s.n = (uint32_t)r.range(32, 128); s.nb = 1; s.fptype = (int)r.range(0, 3); s.deriv = r.chance(0.5) ? 3 : 4;
               double d = s.pqsize / (s.n - 1); s.e1 = std::min(r.logu(1e-5, 1e-2), 0.25 * d * d); if (r.chance(0.5)) s.shifty = r.uni(-3, 3); }
        int fptrack = (int)((c / 3) % 4);
        M.begin_case(c, "ingrid " + s.descr() + " fptrack=" + std::to_string(fptrack));
        vh::set_grid(s.n, 1);
        std::unique_ptr<SourceMap> map; Built b;
        if (fp) {
            auto fill = filling_for(1);
            b.in = grid_for(s, fill); b.out = grid_for(s, fill);
            map.reset(new FokkerPlanckMap(b.in, b.out, s.n, s.n, (FokkerPlanckMap::FPType)s.fptype, (FokkerPlanckMap::FPTracking)fptrack, (timeaxis_t)s.e1,
                                          (FokkerPlanckMap::DerivationType)s.deriv, nullptr));
        } else { b = build(s, 1); if (s.kind == K_KICKX || s.kind == K_KICKY) { auto o = s.off; b.kick->swapOffset(o); } }
        SourceMap* mp = fp ? map.get() : b.map.get();
        const float edge[] = {0.0f, 0.25f, 0.5f, 1.0f, 1.5f, (float)(s.n - 1), (float)(s.n - 1) - 0.5f, (float)(s.n - 2), (float)(s.n - 1) - 1e-3f, (float)(s.n / 2)};
        std::vector<PhaseSpace::Position> ps;
        for (float ex : edge) for (float ey : edge) ps.push_back({ex, ey});
        for (int k = 0; k < 60; k++) ps.push_back({(float)r.uni(0, s.n - 1), (float)r.uni(0, s.n - 1)});
        int nsteps = fp ? (M.thorough() ? 400 : 60) : 12;
        bool bad = false;
        for (int st = 0; st < nsteps && !bad; st++) {
            for (auto& p : ps) {
                PhaseSpace::Position before = p;
                mp->applyTo(p);
                M.ev("particle_moves_checked");
                if (!finite_inside(p, s.n)) {
                    vh::J d; d.s("spec", s.descr()).i("fptrack", fptrack).i("step", st).n("x_before", before.x).n("y_before", before.y).n("x_after", p.x).n("y_after", p.y);
                    std::string key = fp ? ("C15:leaves_grid:fp_track" + std::to_string(fptrack)) : (std::string("C15:leaves_grid:") + KNAME[s.kind]);
                    M.violation(key, "tracked coordinate lies outside the grid (or is not finite) after a step", d.str());
                    bad = true; break;
                }
            }
        }
        if (fp) M.ev("fp_track_model." + std::to_string(fptrack));
        M.sig(vh::hmix(vh::hmix(s.kind * 4 + fptrack, s.n), (uint64_t)(int64_t)(s.e1 * 1e12) ^ (uint64_t)c));
        { vh::J j; j.s("class", "ingrid").s("spec", s.descr()).i("fptrack", fptrack).i("particles", (long)ps.size()).i("steps", nsteps); M.sample(j.str()); }
    }
}

// follow, damping/diffusion step with the deterministic tracking models (FPTrack 1 and 2): the energy of the particle moves like the
// energy centroid of a small blob of charge sitting on it (damping pulls both towards zero energy; diffusion spreads the blob symmetrically)
static void mode_followfp() {
    for (long c = M.from; c < M.from + M.count; c++) {
        Rng r(M.seed, c, 1505);
        Spec s; s.kind = K_FP; s.n = (uint32_t)r.range(48, 128); s.nb = 1;
        s.fptype = (c % 2) ? 3 : 1;                 // full / damping only
        s.deriv = ((c / 2) % 2) ? 3 : 4;            // both derivative stencils
        int fptrack = 1 + (int)((c / 4) % 2);       // approximation 1 / 2
        if (r.chance(0.5)) s.shifty = r.uni(-3, 3);
        // scale: one case in eight on a mesh of more than 256 / 512 / 1024 rows, and with a whole ensemble moved in one call
        const bool scale = ((c / 8) % 8 == 3);
        if (scale) { static const uint32_t big_n[] = {300, 520, 1030}; s.n = big_n[r.range(0, 2)]; M.ev("scale_cases"); }
        const double d = s.pqsize / (s.n - 1);
        s.e1 = std::min(r.logu(2e-3, 3e-2), 0.25 * d * d);
        if (scale) { s.fptype = 1; s.e1 = r.uni(0.2, 0.5) / (s.n / 2.0); }    // (fine mesh: damping only - no diffusion number to respect; the shift per step e1*|y-y0| stays below half a cell, the range the derivative stencil is meant for)
        M.begin_case(c, "followfp " + s.descr() + " fptrack=" + std::to_string(fptrack));
        vh::set_grid(s.n, 1);
        auto fill = filling_for(1);
        auto in = grid_for(s, fill), out = grid_for(s, fill);
        FokkerPlanckMap fpm(in, out, s.n, s.n, (FokkerPlanckMap::FPType)s.fptype, (FokkerPlanckMap::FPTracking)fptrack, (timeaxis_t)s.e1,
                            (FokkerPlanckMap::DerivationType)s.deriv, nullptr);
        const size_t nn = (size_t)s.n * s.n;
        float* din = in->getData();
        const double zb = in->getAxis(1)->zerobin();
        for (int k = 0; k < 8; k++) {
            // away from the borders and at least a quarter of the grid from zero energy (where the damping shift is a sizeable fraction of a cell)
            double px = r.uni(12, s.n - 13), py = (k % 2) ? r.uni(10, std::max(10.5, zb - s.n / 4.0)) : r.uni(std::min(s.n - 11.5, zb + s.n / 4.0), s.n - 11);
            const double sg = 2.5;
            std::fill(din, din + nn, 0.0f);
            for (int x = (int)px - 9; x <= (int)px + 10; x++) for (int y = (int)py - 9; y <= (int)py + 10; y++)
                din[(size_t)x * s.n + y] = (float)std::exp(-0.5 * ((x - px) * (x - px) + (y - py) * (y - py)) / (sg * sg));
            double s0 = 0, cy0 = 0, cx0 = 0;
            for (uint32_t x = 0; x < s.n; x++) for (uint32_t y = 0; y < s.n; y++) { double v = din[(size_t)x * s.n + y]; s0 += v; cy0 += v * y; cx0 += v * x; }
            cy0 /= s0; cx0 /= s0;
            fpm.apply();
            const float* dout = out->getData();
            double s1 = 0, cy1 = 0;
            for (uint32_t x = 0; x < s.n; x++) for (uint32_t y = 0; y < s.n; y++) { double v = dout[(size_t)x * s.n + y]; s1 += v; cy1 += v * y; }
            cy1 /= s1;
            PhaseSpace::Position p{(float)cx0, (float)cy0};
            fpm.applyTo(p);
            double dblob = cy1 - cy0, dpart = (double)p.y - cy0;
            M.ev("particles_followed_through_fp_step");
            M.ev("followfp.track" + std::to_string(fptrack) + ".deriv" + std::to_string(s.deriv));
            // model 2 moves the particle with the local charge flux of its cell; with diffusion present that flux depends on where inside the blob the
            // cell lies (the blob's centre does not move by diffusion, its flanks do): same direction and roughly the blob's shift there
            const bool local_flux = (fptrack == 2 && s.fptype == 3);
            // (model 2 weighs the stencil with the local data also without diffusion: 10-25 % off the centroid's shift on a blob of 2.5 cells rms
            //  on the unchanged code; "not moved" is 100 % off, "moved the other way" 200 %)
            double tol = local_flux ? 0.9 * std::fabs(dblob) + 0.05 : (fptrack == 2 ? 0.45 * std::fabs(dblob) + 0.015 : 0.2 * std::fabs(dblob) + 0.01);
            if (!M.within("followfp_err_over_tol.track" + std::to_string(fptrack) + (local_flux ? ".with_diffusion" : ""), std::fabs(dpart - dblob) / tol, 1.0) || p.x != (float)cx0) {
                vh::J dj; dj.s("spec", s.descr()).i("fptrack", fptrack).n("x0", cx0).n("y0", cy0).n("zero_energy_bin", zb).n("blob_moved_by", dblob).n("particle_moved_by", dpart).n("particle_x_after", p.x);
                M.violation("C15:follow:fokker_planck:track" + std::to_string(fptrack), "tracked particle does not move with the charge around it in the damping/diffusion step", dj.str());
                break;
            }
        }
        if (scale) {
            // a whole ensemble in one applyToAll(): track i must end where applyTo() puts particle i (tracks are identified by their index)
            const size_t np = (c % 16 < 8) ? 5000 : 70000;
            std::fill(din, din + nn, 0.0f);
            for (uint32_t x = 0; x < s.n; x++) for (uint32_t y = 0; y < s.n; y++)
                din[(size_t)x * s.n + y] = (float)std::exp(-0.5 * (std::pow((x - s.n / 2.0) / (s.n / 8.0), 2) + std::pow((y - zb) / (s.n / 8.0), 2)));
            std::vector<PhaseSpace::Position> all(np), one(np);
            for (size_t k = 0; k < np; k++) { all[k] = {(float)r.uni(1, s.n - 2), (float)r.uni(1, s.n - 2)}; one[k] = all[k]; }
            fpm.applyToAll(all);
            long moved_col = 0, differ = 0;
            for (size_t k = 0; k < np; k++) { fpm.applyTo(one[k]); if (all[k].x != one[k].x) moved_col++; if (!vh::bits_equal(all[k].y, one[k].y) || all[k].x != one[k].x) differ++; }
            M.ev("ensembles_moved_in_one_call");
            M.ev("ensemble_tracks_compared", (long)np);
            if (differ) {
                vh::J dj; dj.s("spec", s.descr()).i("fptrack", fptrack).i("particles", (long)np).i("tracks_that_differ", differ).i("tracks_in_another_column", moved_col);
                M.violation("C15:follow:fokker_planck:ensemble_order", "moving an ensemble in one call does not move track i like particle i on its own", dj.str());
            }
        }
        M.sig(vh::hmix(vh::hmix(77 + fptrack, s.n * 8 + s.deriv), (uint64_t)(int64_t)(s.e1 * 1e12) ^ (uint64_t)c));
        { vh::J j; j.s("class", "followfp").s("spec", s.descr()).i("fptrack", fptrack); M.sample(j.str()); }
    }
}

static void mode_ensemble() {
    for (long c = M.from; c < M.from + M.count; c++) {
        Rng r(M.seed, c, 1503);
        Spec s; s.kind = K_FP;
        s.n = (uint32_t)r.range(64, 160); s.nb = 1;
        if (r.chance(0.7)) { s.shiftx = r.uni(-3, 3); s.shifty = r.uni(-3, 3); }
        // every other case: damping/diffusion alone on a small grid - the ensemble must settle on the zero-energy bin itself,
        // whatever its fractional part (without the rotation nothing hides an offset of the damping centre)
        const bool fp_only = (c % 2 == 1);
        if (fp_only) { s.n = (uint32_t)r.range(16, 32) * 2; if (r.chance(0.5)) { s.shiftx = 0; s.shifty = 0; } }
        uint32_t steps = (uint32_t)r.range(50, 200);
        double a = 6.283185307179586 / steps;
        s.e1 = r.logu(1e-3, 1e-2); s.fptype = 3; s.deriv = 4;
        const int N = 20000;
        M.begin_case(c, std::string(fp_only ? "ensemble(fp only) " : "ensemble ") + s.descr() + " steps=" + std::to_string(steps));
        if (fp_only) M.ev("ensembles_under_fp_alone");
        vh::set_grid(s.n, 1);
        auto fill = filling_for(1);
        auto A = grid_for(s, fill), B = grid_for(s, fill);
        RFKickMap rf(A, B, (meshaxis_t)a, (frequency_t)5e8, SourceMap::InterpolationType::cubic, false, nullptr);
        std::vector<meshaxis_t> slip{(meshaxis_t)a};
        DriftMap dr(B, A, slip, (meshaxis_t)1.3e9, SourceMap::InterpolationType::cubic, false, nullptr);
        FokkerPlanckMap fpm(A, B, s.n, s.n, FokkerPlanckMap::FPType::full, FokkerPlanckMap::FPTracking::stochastic, (timeaxis_t)s.e1, FokkerPlanckMap::DerivationType::cubic, nullptr);
        double d = s.pqsize / (s.n - 1);
        double xc = A->getAxis(0)->zerobin(), yc = A->getAxis(1)->zerobin();
        std::vector<PhaseSpace::Position> ps(N);
        for (auto& p : ps) { p.x = (float)(xc + r.gauss() / d); p.y = (float)(yc + r.gauss() / d); }
        long nst = (long)std::ceil(10.0 / s.e1);     // five damping times of the amplitude
        if (nst > 12000) nst = 12000;
        bool bad = false;
        for (long st = 0; st < nst && !bad; st++) {
            if (fp_only) for (auto& p : ps) fpm.applyTo(p);
            else for (auto& p : ps) { rf.applyTo(p); dr.applyTo(p); fpm.applyTo(p); }
            if (st % 50 == 49 || st + 1 == nst) {
                double mx = 0, my = 0, vx = 0, vy = 0; bool inside = true;
                for (auto& p : ps) { mx += p.x; my += p.y; if (!finite_inside(p, s.n)) inside = false; }
                mx /= N; my /= N;
                for (auto& p : ps) { vx += (p.x - mx) * (p.x - mx); vy += (p.y - my) * (p.y - my); }
                double sx = std::sqrt(vx / N) * d, sy = std::sqrt(vy / N) * d;
                double dmx = (mx - xc) * d, dmy = (my - yc) * d;   // in units of sigma
                M.ev("ensemble_snapshots");
                double tm = 6.0 / std::sqrt((double)N), tw = 6.0 / std::sqrt(2.0 * N) + s.e1 + (fp_only ? 0.0 : 0.5 * a);   // statistics + OU discretisation + tilt of the kick-drift invariant ellipse
                bool okm = M.within("ensemble_mean_over_tol", std::max(std::fabs(dmx), std::fabs(dmy)) / tm, 1.0);
                bool okw = M.within("ensemble_width_dev_over_tol", std::max(std::fabs(sx - 1), std::fabs(sy - 1)) / tw, 1.0);
                if (!inside) {
                    vh::J dj; dj.s("spec", s.descr()).i("step", st);
                    M.violation("C15:leaves_grid:ensemble", "a particle of the equilibrium ensemble leaves the grid under the stochastic model", dj.str()); bad = true;
                } else if (!okm || !okw) {
                    vh::J dj; dj.s("spec", s.descr()).i("steps_per_period", steps).i("step", st).n("mean_q_sigma", dmx).n("mean_p_sigma", dmy).n("width_q", sx).n("width_p", sy).n("tol_mean", tm).n("tol_width", tw)
                        .n("zerobin_y", yc).n("expected_if_damped_to_row0", s.e1 * yc / a * d);
                    M.violation(std::string("C15:ensemble:") + (okm ? "width" : "mean"), "equilibrium ensemble does not keep mean and width under the stochastic damping/diffusion model", dj.str()); bad = true;
                }
            }
        }
        M.sig(vh::hmix(vh::hmix(s.n, steps), (uint64_t)(int64_t)(s.e1 * 1e12)));
        { vh::J j; j.s("class", "ensemble").s("spec", s.descr()).i("particles", N).i("steps", nst); M.sample(j.str()); }
    }
}

int main(int argc, char** argv) {
    M.parse(argc, argv);
    std::string mode = M.opt("--mode", "follow");
    if (mode == "follow") mode_follow(); else if (mode == "followdyn") mode_followdyn(); else if (mode == "ingrid") mode_ingrid(); else if (mode == "followfp") mode_followfp(); else mode_ensemble();
    M.finish();
    return 0;
}
