// C19 monitor: DynamicRFKickMap with all amplitudes zero == static RFKickMap (bit for bit);
// with modulation/noise the kick applied at step k is the one recorded for step k, exactly
// one record per apply() across flushes, pure phase modulation has the configured A and f.
#include "maps.hpp"

using namespace vfps;
using namespace vm;
static vh::Monitor M;
static const double PI2 = 6.283185307179586476925;

struct Par {
    uint32_t n; int it; bool linear; double shiftx, shifty;
    double angle, revpart, V, V0, fRF;
    double phasespread, amplspread, modampl, modinc; uint32_t steps;
    double qscale = 2.3e-3, pscale = 6.11e5, pq = 12;
    std::string descr() const {
        std::ostringstream o; o << (linear ? "linear" : "sinus") << " n=" << n << " it=" << it << " steps=" << steps << " angle=" << angle
            << " revpart=" << revpart << " V=" << V << " V0=" << V0 << " noise=(" << phasespread << "," << amplspread << ") mod=(" << modampl << "," << modinc << ")";
        return o.str(); }
};

static std::shared_ptr<PhaseSpace> grid(const Par& p) {
    double d = p.pq / (p.n - 1), qc = -p.shiftx * d, pc = -p.shifty * d;
    return std::make_shared<PhaseSpace>((meshaxis_t)(qc - p.pq / 2), (meshaxis_t)(qc + p.pq / 2), p.qscale, (meshaxis_t)(pc - p.pq / 2), (meshaxis_t)(pc + p.pq / 2), p.pscale,
                                        nullptr, 1e-10, 1e-3, std::vector<integral_t>{1.0f}, 1.0, nullptr);
}

static DynamicRFKickMap* make_dyn(const Par& p, std::shared_ptr<PhaseSpace> in, std::shared_ptr<PhaseSpace> out) {
    auto it = (SourceMap::InterpolationType)p.it;
    if (p.linear)
        return new DynamicRFKickMap(in, out, p.n, p.n, (meshaxis_t)p.angle, p.revpart, p.fRF, (meshaxis_t)p.phasespread, (meshaxis_t)p.amplspread,
                                    (meshaxis_t)p.modampl, p.modinc, p.steps, it, false, nullptr);
    return new DynamicRFKickMap(in, out, p.n, p.n, p.revpart, p.V, p.fRF, p.V0, (meshaxis_t)p.phasespread, (meshaxis_t)p.amplspread,
                                (meshaxis_t)p.modampl, p.modinc, p.steps, it, false, nullptr);
}

static RFKickMap* make_static(const Par& p, std::shared_ptr<PhaseSpace> in, std::shared_ptr<PhaseSpace> out) {
    auto it = (SourceMap::InterpolationType)p.it;
    if (p.linear) return new RFKickMap(in, out, (meshaxis_t)p.angle, (frequency_t)p.fRF, it, false, nullptr);
    return new RFKickMap(in, out, (timeaxis_t)p.revpart, (meshaxis_t)p.V, (frequency_t)p.fRF, (meshaxis_t)p.V0, it, false, nullptr);
}

// a static RF map whose (phase, amplitude) can be set from outside: the reference for "the kick of step k is the recorded one"
struct OpenRF : public RFKickMap {
    using RFKickMap::RFKickMap;
    void set(meshaxis_t phase, meshaxis_t ampl) { _calcKick(phase, ampl); }
};

static OpenRF* make_open(const Par& p, std::shared_ptr<PhaseSpace> in, std::shared_ptr<PhaseSpace> out) {
    auto it = (SourceMap::InterpolationType)p.it;
    if (p.linear) return new OpenRF(in, out, (meshaxis_t)p.angle, (frequency_t)p.fRF, it, false, nullptr);
    return new OpenRF(in, out, (timeaxis_t)p.revpart, (meshaxis_t)p.V, (frequency_t)p.fRF, (meshaxis_t)p.V0, it, false, nullptr);
}

// the kick formula, evaluated by the oracle in double from the (float) inputs the map was given
static double kick(const Par& p, const PhaseSpace& ps, uint32_t x, double phase, double ampl) {
    auto a0 = ps.getAxis(0), a1 = ps.getAxis(1);
    double bl2phase = (double)(float)((double)a0->scale("Meter") / physcons::c * (double)(float)p.fRF * PI2);
    if (p.linear) {
        double t = std::tan((double)(float)p.angle);
        return ampl * (t * ((double)a0->zerobin() - x) + t * (0.0 - phase) / bl2phase / (double)a0->delta());
    }
    double sync = std::asin((double)(float)p.V0 / (double)(float)p.V);
    (void)sync;
    return (double)(float)p.revpart * (-ampl * (double)(float)p.V * std::sin((double)a0->at(x) * bl2phase + phase) + (double)(float)p.V0)
           / (double)a1->delta() / (double)a1->scale("ElectronVolt");
}

int main(int argc, char** argv) {
    M.parse(argc, argv);
    for (long c = M.from; c < M.from + M.count; c++) {
        Rng r(M.seed, c, 191);
        Par p;
        p.n = (uint32_t)r.range(16, M.thorough() ? 128 : 64);
        p.it = 1 + (int)(c % 4);
        p.linear = (c / 4) % 2 == 0;
        p.shiftx = r.chance(0.5) ? 0 : r.uni(-3, 3); p.shifty = r.chance(0.5) ? 0 : r.uni(-3, 3);
        p.angle = r.uni(0.003, 0.3) * (r.chance(0.2) ? -1 : 1);
        p.fRF = r.logu(1e8, 3e9);
        p.V = r.logu(1e5, 5e6); p.V0 = r.uni(0, 0.5) * p.V;
        double dE = p.pq / (p.n - 1) * p.pscale;
        p.revpart = r.uni(0.05, 1) * (p.n / 6.0) * dE / (p.V + p.V0);
        if (p.linear) p.revpart = r.logu(1e-4, 1e-1);
        p.steps = (uint32_t)r.range(3, M.thorough() ? 400 : 120);
        bool zero = (c / 8) % 3 == 0;             // all amplitudes zero: must equal the static map
        int kindmod = (int)((c / 8) % 3);         // 1: pure phase modulation, 2: noise (+ maybe modulation)
        bool longrun = (c % 97 == 5);             // a few very long pure modulations on a tiny grid (frequency must not drift)
        if (longrun) { p.n = 16; p.steps = (uint32_t)r.range(40000, M.thorough() ? 300000 : 120000); zero = false; kindmod = 1; }
        // a few cases on meshes beyond 256 cells (all three kinds: zero amplitudes, modulation, noise)
        if (c % 97 == 40 || c % 97 == 41 || c % 97 == 64) { static const uint32_t big_n[] = {300, 520, 1030}; p.n = big_n[(c / 97) % 3]; p.steps = (uint32_t)r.range(3, 30);
            dE = p.pq / (p.n - 1) * p.pscale; if (!p.linear) p.revpart = r.uni(0.05, 1) * (p.n / 6.0) * dE / (p.V + p.V0); M.ev("cases_on_meshes_beyond_256_cells"); }
        p.phasespread = p.amplspread = p.modampl = p.modinc = 0;
        if (!zero) {
            if (kindmod == 1) { p.modampl = r.logu(1e-4, 0.3); p.modinc = longrun ? r.logu(1e-4, 1e-2) : r.logu(1e-4, 0.4); }
            else { p.phasespread = r.chance(0.7) ? r.logu(1e-6, 1e-2) * std::sqrt(p.revpart) : 0; p.amplspread = r.chance(0.7) ? r.logu(1e-6, 1e-2) * std::sqrt(p.revpart) : 0;
                   if (r.chance(0.5)) { p.modampl = r.logu(1e-4, 0.3); p.modinc = r.logu(1e-4, 0.4); }
                   if (p.phasespread == 0 && p.amplspread == 0 && p.modampl == 0) p.phasespread = 1e-4 * std::sqrt(p.revpart);
                   // one noise case in six: amplitude noise of order one per step, so that the amplitude 1 + noise of many steps is negative
                   // (the voltage is inverted in those steps: what is applied is still what is recorded)
                   if ((c / 24) % 6 == 1) { p.amplspread = r.uni(0.3, 1.0) * std::sqrt(p.revpart); M.ev("cases_with_amplitude_noise_of_order_one"); } }
        } else if (r.chance(0.5)) p.modinc = r.logu(1e-4, 0.4);   // frequency set but amplitude zero
        M.begin_case(c, "c19 " + p.descr());
        vh::set_grid(p.n, 1);
        auto in = grid(p), out = grid(p), out2 = grid(p);
        const size_t nn = (size_t)p.n * p.n;
        for (size_t i = 0; i < nn; i++) in->getData()[i] = (float)r.uni(-1, 1);
        std::unique_ptr<DynamicRFKickMap> dyn(make_dyn(p, in, out));
        std::unique_ptr<RFKickMap> stat(make_static(p, in, out2));
        const double syncphase = p.linear ? 0.0 : (double)(float)std::asin((float)((meshaxis_t)p.V0 / (meshaxis_t)p.V));
        std::unique_ptr<OpenRF> ref(make_open(p, in, out2));
        // one case in five: another machine's phase space and RF system (other length and energy scales) is set up and used in the same process
        // after this case's maps were built - what a map does depends on its own grids and arguments only
        if (c % 5 == 2) {
            Par p2 = p; p2.pscale = p.pscale * r.uni(2.5, 6); p2.qscale = p.qscale * r.uni(0.2, 0.6); p2.n = (p.n > 200) ? 32 : p.n;
            vh::set_grid(p2.n, 1);
            { auto in2 = grid(p2), o2 = grid(p2); std::unique_ptr<RFKickMap> s2(make_static(p2, in2, o2)); std::unique_ptr<DynamicRFKickMap> d2(make_dyn(p2, in2, o2)); d2->apply(); s2->apply(); }
            vh::set_grid(p.n, 1);
            M.ev("cases_with_another_machine_set_up_in_between");
        }
        std::vector<uint64_t> outhash;           // the grid each step produced (the input grid never changes)
        std::vector<std::vector<float>> forces;
        std::vector<std::array<meshaxis_t, 2>> recorded;
        uint32_t napply = longrun ? p.steps : (uint32_t)r.range(1, p.steps);
        if (longrun) M.ev("long_modulation_runs");
        bool stop = false;
        for (uint32_t k = 0; k < napply && !stop; k++) {
            dyn->apply();
            outhash.push_back(vh::hdata(out->getData(), 4 * nn));
            M.ev("applies");
            if (zero) {
                stat->apply();
                bool same = true; size_t at = 0;
                for (uint32_t x = 0; x < p.n; x++) if (!vh::bits_equal(dyn->getForce()[x], stat->getForce()[x])) { same = false; at = x; break; }
                bool samed = true;
                if (same) for (size_t i = 0; i < nn; i++) if (!vh::bits_equal(out->getData()[i], out2->getData()[i])) { samed = false; at = i; break; }
                M.ev("zero_amplitude_steps");
                if (!same || !samed) {
                    vh::J d; d.s("params", p.descr()).i("step", k).i("force_equal", same).i("index", (long)at).n("dynamic", same ? out->getData()[at] : dyn->getForce()[at]).n("static", same ? out2->getData()[at] : stat->getForce()[at]);
                    M.violation(std::string("C19:zero_amplitude:") + (p.linear ? "linear" : "sinus"), "dynamic RF map with all amplitudes zero differs from the static RF map", d.str());
                    stop = true;
                }
            }
            if (r.chance(longrun ? 0.001 : 0.15) || k + 1 == napply) {      // flush like an output step
                auto part = dyn->getPastModulation();
                recorded.insert(recorded.end(), part.begin(), part.end());
                M.ev("flushes");
            }
        }
        if (!stop) {
            if (recorded.size() != outhash.size()) {
                vh::J d; d.s("params", p.descr()).i("applies", (long)outhash.size()).i("records", (long)recorded.size());
                M.violation("C19:record_count", "number of recorded modulation entries differs from the number of executed steps", d.str());
            } else {
                // (1) what step k did to the grid is what a static RF map set to the recorded (phase, amplitude) of step k does, bit for bit
                for (size_t k = 0; k < outhash.size() && !stop; k++) {
                    ref->set(recorded[k][0], recorded[k][1]);
                    ref->apply();
                    forces.emplace_back(ref->getForce(), ref->getForce() + p.n);
                    M.ev("steps_compared_with_recorded_kick");
                    bool nonzero = false; for (size_t i = 0; i < nn && !nonzero; i++) if (out2->getData()[i] != 0) nonzero = true;
                    if (nonzero) M.ev("steps_compared_with_nonzero_result");
                    if (vh::hdata(out2->getData(), 4 * nn) != outhash[k]) {
                        vh::J d; d.s("params", p.descr()).i("step", (long)k).n("phase", recorded[k][0]).n("ampl", recorded[k][1]);
                        M.violation(std::string("C19:record_mismatch:") + (p.linear ? "linear" : "sinus"), "grid after step k is not what the RF kick with the (phase, amplitude) recorded for step k produces", d.str());
                        stop = true;
                    }
                }
                // (2) that kick follows the formula; pure modulation has the configured waveform
                double fmax = 0;
                for (auto& f : forces) for (float v : f) fmax = std::max(fmax, std::fabs((double)v));
                for (size_t k = 0; k < forces.size() && !stop; k++) {
                    double ph = recorded[k][0], am = recorded[k][1];
                    for (uint32_t x = 0; x < p.n; x++) {
                        double want = kick(p, *in, x, ph, am);
                        double tol = 2e-5 * (fmax + 1e-6) + (p.linear ? 1e-5 * std::fabs(want) : 0);
                        M.ev("kicks_compared");
                        if (!M.within("kick_err_over_tol", std::fabs((double)forces[k][x] - want) / tol, 1.0)) {
                            vh::J d; d.s("params", p.descr()).i("step", (long)k).i("x", x).n("applied", forces[k][x]).n("from_record", want).n("phase", ph).n("ampl", am);
                            M.violation(std::string("C19:kick_formula:") + (p.linear ? "linear" : "sinus"), "kick table for a given (phase, amplitude) is not the RF kick formula evaluated at that phase and amplitude", d.str());
                            stop = true; break;
                        }
                    }
                    if (p.phasespread == 0 && p.amplspread == 0) {
                        double ang = PI2 * p.modinc * (double)k;
                        double wantph = syncphase + (double)(float)p.modampl * std::sin(ang);
                        double tol = 4e-6 * (std::fabs(syncphase) + 1) + (double)p.modampl * (4e-6 + 4e-7 * std::fabs(ang));
                        M.ev("modulation_entries_checked");
                        if (!M.within("modulation_err_over_tol", std::fabs(ph - wantph) / tol, 1.0) || am != 1.0) {
                            vh::J d; d.s("params", p.descr()).i("step", (long)k).n("phase", ph).n("want", wantph).n("ampl", am);
                            M.violation("C19:modulation_waveform", "recorded phase is not phi_s + A*sin(2 pi f dt k) / amplitude not 1 without noise", d.str());
                            stop = true;
                        }
                    }
                }
            }
        }
        M.sig(vh::hmix(vh::hmix(p.n * 8 + p.it, p.steps), (uint64_t)(int64_t)(p.angle * 1e9) ^ (uint64_t)(int64_t)(p.modampl * 1e12)));
        { vh::J j; j.s("params", p.descr()).i("applies", napply).i("zero_amplitudes", zero); M.sample(j.str()); }
    }
    M.finish();
    return 0;
}
