// C20 / C13 monitors on ProgramOptions:
//  mode c20: command line beats config file beats default; legacy aliases; compatibility options
//  mode c13: parse -> save(.cfg) -> fresh parse(--config .cfg) must give the same value for every getter
#include "common.hpp"
#include <sys/stat.h>
#include "IO/ProgramOptions.hpp"
#include <fstream>
#include <functional>

using namespace vfps;
using vh::Rng;
static vh::Monitor M;

enum Kind { F32, F64, U32, I32, I64, BOOL, STR, VEC };

struct Opt {
    const char* name; Kind kind; bool cli, cfg;
    std::function<std::string(const ProgramOptions&)> get;
    std::string def;       // documented default, in getter representation
    int domain;            // generator selector
    const char* alias;     // legacy name accepted in config files (or nullptr)
};

static std::string rf(float v) { char b[64]; snprintf(b, 64, "%a", (double)v); return b; }
static std::string rd(double v) { char b[64]; snprintf(b, 64, "%a", v); return b; }
static std::string ri(long long v) { return std::to_string(v); }
static std::string rvec(const std::vector<float>& v) { std::string s; for (float x : v) s += rf(x) + ","; return s; }

#define G(expr) [](const ProgramOptions& o) { return expr; }

static std::vector<Opt> table() {
    std::vector<Opt> t = {
        {"alpha0", F32, true, true, G(rf(o.getAlpha0())), rf(4e-3f), 1, nullptr},
        {"alpha1", F32, true, true, G(rf(o.getAlpha1())), rf(0), 2, nullptr},
        {"alpha2", F32, true, true, G(rf(o.getAlpha2())), rf(0), 2, nullptr},
        {"SynchrotronFrequency", F32, true, true, G(rf(o.getSyncFreq())), rf(0), 3, "SyncFreq"},
        {"RevolutionFrequency", F32, true, true, G(rf(o.getRevolutionFrequency())), rf(9e6f), 4, nullptr},
        {"DampingTime", F64, true, true, G(rd(o.getDampingTime())), rd(-1), 5, nullptr},
        {"HarmonicNumber", F32, true, true, G(rf(o.getHarmonicNumber())), rf(50), 6, nullptr},
        {"InitialDistFile", STR, true, true, G(o.getStartDistFile()), "", 20, nullptr},
        {"InitialDistStep", I64, true, true, G(ri(o.getStartDistStep())), "-1", 7, nullptr},
        {"InitialDistZoom", F64, true, true, G(rd(o.getStartDistZoom())), rd(1), 8, nullptr},
        {"BunchCurrent", VEC, true, true, G(rvec(o.getBunchCurrents())), rvec({3e-3f}), 9, nullptr},
        {"BendingRadius", F64, true, true, G(rd(o.getBendingRadius())), rd(-1), 10, nullptr},
        {"BeamEnergy", F64, true, true, G(rd(o.getBeamEnergy())), rd(1.3e9), 11, nullptr},
        {"BeamEnergySpread", F64, true, true, G(rd(o.getEnergySpread())), rd(4.7e-4), 12, nullptr},
        {"Impedance", STR, true, true, G(o.getImpedanceFile()), "", 20, nullptr},
        {"VacuumGap", F64, true, true, G(rd(o.getVacuumChamberGap())), rd(0.03), 13, nullptr},
        {"UseCSR", BOOL, true, true, G(ri(o.getUseCSR())), "1", 0, nullptr},
        {"CollimatorRadius", F64, true, true, G(rd(o.getCollimatorRadius())), rd(0), 13, nullptr},
        {"WallConductivity", F64, true, true, G(rd(o.getWallConductivity())), rd(0), 14, nullptr},
        {"WallSusceptibility", F64, true, true, G(rd(o.getWallSusceptibility())), rd(0), 2, nullptr},
        {"CutoffFreq", F32, true, true, G(rf(o.getCutoffFrequency())), rf(23e9f), 15, nullptr},
        {"AcceleratingVoltage", F64, true, true, G(rd(o.getRFVoltage())), rd(1e6), 16, "RFVoltage"},
        {"LinearRF", BOOL, true, true, G(ri(o.getLinearRF())), "1", 0, nullptr},
        {"RFAmplitudeSpread", F64, true, true, G(rd(o.getRFAmplitudeSpread())), rd(0), 17, nullptr},
        {"RFPhaseSpread", F64, true, true, G(rd(o.getRFPhaseSpread())), rd(0), 17, nullptr},
        {"RFPhaseModAmplitude", F64, true, true, G(rd(o.getRFPhaseModAmplitude())), rd(0), 17, nullptr},
        {"RFPhaseModFrequency", F64, true, true, G(rd(o.getRFPhaseModFrequency())), rd(0), 3, nullptr},
        {"cldev", I32, true, true, G(ri(o.getCLDevice())), "0", 18, nullptr},
        {"output", STR, true, true, G(o.getOutFile()), "", 21, nullptr},
        {"outstep", U32, true, true, G(ri(o.getOutSteps())), "100", 19, nullptr},
        {"SavePhaseSpace", U32, true, true, G(ri(o.getSavePhaseSpace())), "0", 19, nullptr},
        {"tracking", STR, true, true, G(o.getParticleTracking()), "", 20, nullptr},
        {"verbose", BOOL, true, true, G(ri(o.getVerbosity())), "0", 0, nullptr},
        {"run_anyway", BOOL, true, true, G(ri(o.getForceRun())), "0", 0, nullptr},
        {"StepsPerTs", U32, true, true, G(ri(o.getStepsPerTsync())), "1000", 22, "steps"},
        {"StepsPerRevolution", F64, true, true, G(rd(o.getStepsPerTrev())), rd(0), 17, nullptr},
        {"padding", F64, true, true, G(rd(o.getPadding())), rd(8), 23, nullptr},
        {"RoundPadding", BOOL, true, true, G(ri(o.getRoundPadding())), "1", 0, nullptr},
        {"PhaseSpaceSize", F32, true, true, G(rf(o.getPhaseSpaceSize())), rf(12), 24, nullptr},
        {"PhaseSpaceShiftX", F32, true, true, G(rf(o.getPSShiftX())), rf(0), 2, nullptr},
        {"PhaseSpaceShiftY", F32, true, true, G(rf(o.getPSShiftY())), rf(0), 2, nullptr},
        {"RenormalizeCharge", I32, true, true, G(ri(o.getRenormalizeCharge())), "0", 25, nullptr},
        {"FPType", U32, true, true, G(ri(o.getFPType())), "3", 26, nullptr},
        {"FPTrack", U32, true, true, G(ri(o.getFPTrack())), "3", 26, nullptr},
        {"GridSize", U32, true, true, G(ri(o.getGridSize())), "256", 27, nullptr},
        {"rotations", F64, true, true, G(rd(o.getNRotations())), rd(5), 23, nullptr},
        {"derivation", U32, true, true, G(ri(o.getDerivationType())), "4", 28, nullptr},
        {"InterpolationPoints", U32, true, true, G(ri(o.getInterpolationPoints())), "4", 29, nullptr},
        {"InterpolateClamped", BOOL, true, true, G(ri(o.getInterpolationClamped())), "0", 0, nullptr},
    };
    return t;
}

struct Val { std::string token; std::string repr; std::vector<std::string> tokens; };   // text given to the parser, expected getter representation

static std::string fullf(float v) { char b[64]; snprintf(b, 64, "%.9g", (double)v); return b; }
static std::string fulld(double v) { char b[64]; snprintf(b, 64, "%.17g", v); return b; }

static Val gen_value(Rng& r, const Opt& o) {
    Val v;
    auto D = [&](double x) { if (o.kind == F32) { float f = (float)x; v.token = fullf(f); v.repr = rf(f); } else { v.token = fulld(x); v.repr = rd(x); } };
    switch (o.kind) {
    case BOOL: { bool b = r.chance(0.5); static const char* T[] = {"true", "1", "on", "yes"}; static const char* F[] = {"false", "0", "off", "no"};
                 v.token = b ? T[r.range(0, 3)] : F[r.range(0, 3)]; v.repr = ri(b); break; }
    case STR: { static const char* names[] = {"a.dat", "some/dir/file.txt", "x_y-z.h5", "f.hdf5", "t.txt", "data.set.v2", "in put/Z file.dat", "a b.txt"}; v.token = names[r.range(0, 7)];
                if (o.domain == 21) { static const char* outs[] = {"res.h5", "dir/out.hdf5", "plain.png", "o.h5", "my run.h5", "dir with blank/o.hdf5"}; v.token = outs[r.range(0, 5)]; }
                // scale: now and then a path far longer than any fixed-size buffer one would think of (300 / 1100 / 5000 characters)
                if (r.chance(0.03)) { static const size_t L[] = {300, 1100, 5000}; size_t want = L[r.range(0, 2)]; std::string lp;
                    while (lp.size() < want) { lp += "d" + std::to_string(lp.size()) + std::string((size_t)r.range(1, 40), (char)('a' + r.range(0, 25))); lp += (r.chance(0.3) ? "/" : "_"); }
                    v.token = lp + ((o.domain == 21) ? "o.h5" : "f.dat"); M.ev("values.very_long_path"); }
                v.repr = v.token; break; }
    case U32: { long long x;
        switch (o.domain) { case 19: x = r.range(0, 5000); break; case 22: x = r.range(1, 100000); break; case 26: x = r.range(0, 3); break;
                            case 27: x = r.range(2, 4096); break; case 28: x = r.range(3, 4); break; case 29: x = r.range(1, 4); break; default: x = r.range(0, 1000); }
        v.token = v.repr = ri(x); break; }
    case I32: { long long x = (o.domain == 25) ? r.range(-5, 1000) : r.range(-1, 3); v.token = v.repr = ri(x); break; }
    case I64: { long long x = r.chance(0.2) ? r.range(-3000000000ll, 3000000000ll) : r.range(-20, 20); v.token = v.repr = ri(x); break; }
    case VEC: { int k = (int)r.range(1, 5);
                if (r.chance(0.04)) { static const int K[] = {70, 300, 1000}; k = K[r.range(0, 2)]; M.ev("values.bunch_current_lists_beyond_64_entries"); }    /* scale: a long fill pattern */
                std::vector<float> f; for (int i = 0; i < k; i++) { float c = r.chance(0.2) ? 0.0f : (float)r.logu(1e-6, 1e-1); f.push_back(c); v.tokens.push_back(fullf(c)); }
                v.repr = rvec(f); break; }
    default: {
        double x;
        switch (o.domain) {
        case 1: x = r.logu(1e-5, 1e-1); break;          case 2: x = r.uni(-5, 5); break;
        case 3: x = r.chance(0.3) ? 0 : r.logu(1e2, 1e5); break;   case 4: x = r.logu(1e5, 1e8); break;
        case 5: x = r.chance(0.3) ? -1 : r.logu(1e-5, 1e-1); break; case 6: x = (double)r.range(1, 5000); break;
        case 8: x = r.uni(0.1, 5); break;               case 10: x = r.chance(0.3) ? -1 : r.logu(0.5, 100); break;
        case 11: x = r.logu(1e8, 1e10); break;          case 12: x = r.logu(1e-5, 1e-2); break;
        case 13: x = r.uni(-0.2, 0.2); break;           case 14: x = r.chance(0.3) ? 0 : r.logu(1e5, 1e8); break;
        case 15: x = r.logu(1e9, 1e12); break;          case 16: x = r.logu(1e5, 1e7); break;
        case 17: x = r.chance(0.4) ? 0 : r.logu(1e-6, 10); break;  case 23: x = r.uni(0.5, 20); break;
        case 24: x = r.uni(4, 40); break;               default: x = r.uni(-1, 1);
        }
        if (r.chance(0.3)) x = (double)(float)x * (1 + 1e-9);    // value that needs all significant digits
        D(x); }
    }
    if (v.tokens.empty()) v.tokens.push_back(v.token);
    return v;
}

struct Placement { int where; Val cli, cfg; bool alias; };   // where: 0 default, 1 cli, 2 cfg, 3 both

static std::map<std::string, std::string> all_getters(const ProgramOptions& o, const std::vector<Opt>& T) {
    std::map<std::string, std::string> m;
    for (auto& t : T) m[t.name] = t.get(o);
    return m;
}

static bool parse_with(ProgramOptions& po, const std::vector<std::string>& args, std::string& err) {
    std::vector<std::string> a = args; a.insert(a.begin(), "inovesa");
    std::vector<char*> av; for (auto& s : a) av.push_back(const_cast<char*>(s.c_str()));
    try { return po.parse((int)av.size(), av.data()); }
    catch (std::exception& e) { err = e.what(); return false; }
}

static void build_inputs(Rng& r, const std::vector<Opt>& T, std::vector<Placement>& P, std::vector<std::string>& args, std::string& cfgtext,
                         bool use_alias, bool use_compat, double density) {
    P.assign(T.size(), Placement{0, {}, {}, false});
    std::vector<size_t> order(T.size());
    for (size_t i = 0; i < T.size(); i++) order[i] = i;
    for (size_t i = T.size() - 1; i > 0; i--) std::swap(order[i], order[r.u64() % (i + 1)]);
    std::vector<std::string> vecargs;
    for (size_t i : order) {
        const Opt& o = T[i];
        Placement& p = P[i];
        if (!r.chance(density)) continue;
        p.where = (int)r.range(1, 3);
        if (p.where & 1) {
            p.cli = gen_value(r, o);
            if (o.kind == VEC) { vecargs.push_back(std::string("--") + o.name); for (auto& t : p.cli.tokens) vecargs.push_back(t); }
            else if (o.kind == BOOL && (!strcmp(o.name, "verbose") || !strcmp(o.name, "run_anyway")) && p.cli.repr == "1" && r.chance(0.5)) args.push_back(std::string("--") + o.name);
            else if (r.chance(0.5)) { args.push_back(std::string("--") + o.name); args.push_back(p.cli.token); }
            else args.push_back(std::string("--") + o.name + "=" + p.cli.token);
        }
        if (p.where & 2) {
            p.cfg = gen_value(r, o);
            if (p.where == 3) for (int k = 0; k < 4 && p.cfg.repr == p.cli.repr; k++) p.cfg = gen_value(r, o);
            p.alias = use_alias && o.alias != nullptr && r.chance(0.7);
            const char* nm = p.alias ? o.alias : o.name;
            for (auto& t : p.cfg.tokens) cfgtext += std::string(nm) + (r.chance(0.5) ? "=" : " = ") + t + "\n";
        }
    }
    if (use_compat) {
        if (r.chance(0.7)) cfgtext += "HaissinskiIterations=" + ri(r.range(0, 50)) + "\n";
        if (r.chance(0.5)) cfgtext += "RotationType=" + ri(r.range(0, 3)) + "\n";
        if (r.chance(0.5)) cfgtext += std::string("SaveSourceMap=") + (r.chance(0.5) ? "true" : "false") + "\n";
        if (r.chance(0.3)) cfgtext += "InitialDistParam=" + ri(r.range(0, 9)) + "\n";
        if (r.chance(0.3)) cfgtext = "# a comment line\n\n" + cfgtext;
    }
    // scale: now and then a file with thousands of lines and a line of ten thousand characters that carry no assignment
    if (r.chance(0.03)) { std::string pad; int nl = (int)r.range(3000, 9000); for (int i = 0; i < nl; i++) pad += (i % 3 == 0) ? "\n" : "# filler line " + std::to_string(i) + "\n";
        static const size_t LL[] = {253, 254, 255, 1000, 10000, 70000};      // (+2 for "# ": lines of 255, 256, 257 ... characters)
        const std::string longline = "# " + std::string(LL[r.range(0, 5)], 'x') + "\n";
        cfgtext = r.chance(0.5) ? longline + pad + cfgtext : cfgtext + pad + longline;     /* the long line is the file's first or its last */
        M.ev("config_files_with_thousands_of_lines"); }
    // the multitoken option goes last on the command line
    args.insert(args.end(), vecargs.begin(), vecargs.end());
}

static std::string expected(const Opt& o, const Placement& p) {
    if (p.where & 1) return p.cli.repr;
    if (p.where & 2) return p.cfg.repr;
    return o.def;
}

static void mode_c20() {
    auto T = table();
    for (long c = M.from; c < M.from + M.count; c++) {
        Rng r(M.seed, c, 2001);
        bool use_alias = (c % 2 == 0), use_compat = (c % 3 == 0);
        std::vector<Placement> P; std::vector<std::string> args; std::string cfg;
        build_inputs(r, T, P, args, cfg, use_alias, use_compat, r.uni(0.05, 0.6));
        std::string cfgname = "c20_" + std::to_string(c) + ".cfg";
        // a third of the files end without a final newline (hand-edited files often do): the last line counts like any other
        if (c % 3 == 2 && !cfg.empty() && cfg.back() == '\n') { cfg.pop_back(); M.ev("config_files_without_final_newline"); }
        { std::ofstream f(cfgname); f << cfg; }
        args.insert(args.begin(), {"--config", cfgname});
        { std::string d = "c20"; for (auto& a : args) d += " " + a; M.begin_case(c, d.substr(0, 600)); }
        ProgramOptions po; std::string err;
        bool ok = parse_with(po, args, err);
        M.ev("parses");
        if (!ok) {
            vh::J d; d.s("error", err).s("config", cfg.substr(0, 400)); { std::string a; for (auto& x : args) a += x + " "; d.s("args", a.substr(0, 600)); }
            M.violation("C20:legal_input_rejected", "a legal combination of options is rejected", d.str());
        } else {
            for (size_t i = 0; i < T.size(); i++) {
                std::string want = expected(T[i], P[i]), got = T[i].get(po);
                if ((T[i].kind == STR) && want == "/dev/null") want = "";
                M.ev("option_values_checked");
                if (P[i].where == 3) M.ev("cli_vs_config_conflicts_checked");
                if (P[i].alias) M.ev("alias_uses_checked");
                if (got != want) {
                    const char* src = (P[i].where & 1) ? ((P[i].where & 2) ? (P[i].alias ? "cli_over_config_alias" : "cli_over_config") : "cli") : ((P[i].where & 2) ? (P[i].alias ? "config_alias" : "config") : "default");
                    vh::J d; d.s("option", T[i].name).s("source", src).s("got", got).s("want", want).s("cli_token", P[i].cli.token).s("cfg_token", P[i].cfg.token).s("config", cfg.substr(0, 500));
                    { std::string a; for (auto& x : args) a += x + " "; d.s("args", a.substr(0, 600)); }
                    M.violation(std::string("C20:precedence:") + src + ((P[i].alias) ? std::string(":") + T[i].alias : ""), "effective option value is not the one with the highest precedence", d.str());
                }
            }
        }
        unlink(cfgname.c_str());
        uint64_t h = vh::hdata(cfg.data(), cfg.size()); for (auto& a : args) h = vh::hdata(a.data(), a.size(), h);
        M.sig(h);
        { vh::J j; std::string a; for (auto& x : args) a += x + " "; j.s("class", "c20").s("args", a.substr(0, 300)).s("config", cfg.substr(0, 300)); M.sample(j.str()); }
    }
}

static void mode_c13() {
    auto T = table();
    for (long c = M.from; c < M.from + M.count; c++) {
        Rng r(M.seed, c, 1301);
        std::vector<Placement> P; std::vector<std::string> args; std::string cfg;
        build_inputs(r, T, P, args, cfg, c % 4 == 0, c % 5 == 0, r.uni(0.05, 0.7));
        // alpha0 xor synchrotron frequency is the normal use; keep both in some cases
        std::string cfgname = "c13_" + std::to_string(c) + ".cfg", saved = "c13_" + std::to_string(c) + ".saved.cfg";
        // a quarter of the files are saved into a directory other than the working directory (results written to results/scan 1/run.h5):
        // relative file names inside keep their meaning relative to the working directory, where the program resolves them
        if (c % 4 == 1) { static const char* dirs[] = {"results", "results/scan 1", "a/b/c"}; std::string d = dirs[(c / 4) % 3];
            std::string acc; for (char ch : d + "/") { if (ch == '/') mkdir(acc.c_str(), 0777); acc += ch; }
            saved = d + "/" + saved; M.ev("cfg_files_saved_into_another_directory"); }
        // a third of the files end without a final newline (hand-edited files often do): the last line counts like any other
        if (c % 3 == 2 && !cfg.empty() && cfg.back() == '\n') { cfg.pop_back(); M.ev("config_files_without_final_newline"); }
        { std::ofstream f(cfgname); f << cfg; }
        args.insert(args.begin(), {"--config", cfgname});
        { std::string d = "c13"; for (auto& a : args) d += " " + a; M.begin_case(c, d.substr(0, 600)); }
        ProgramOptions po; std::string err;
        if (!parse_with(po, args, err)) { unlink(cfgname.c_str()); M.cases--; continue; }   // (C20's subject)
        auto before = all_getters(po, T);
        po.save(saved);
        ProgramOptions po2; std::string err2;
        bool ok2 = parse_with(po2, {"--config", saved}, err2);
        M.ev("save_reload_cycles");
        std::string savedtext; { std::ifstream f(saved); std::stringstream ss; ss << f.rdbuf(); savedtext = ss.str(); }
        if (!ok2) {
            vh::J d; d.s("error", err2).s("saved_cfg", savedtext.substr(0, 800));
            M.violation("C13:saved_cfg_rejected", "the saved configuration file cannot be parsed back", d.str());
        } else {
            auto after = all_getters(po2, T);
            bool fs_set = before["SynchrotronFrequency"] != rf(0);
            for (auto& t : T) {
                std::string nm = t.name;
                if (nm == "run_anyway") continue;          // deliberately not saved; no effect once an output is set
                M.ev("getters_compared");
                if (before[nm] == after[nm]) continue;
                if (nm == "alpha0" && fs_set && after[nm] == rf(0)) { M.ev("alpha0_overridden_saved_as_zero"); continue; }   // documented exemption
                const char* src = (P[&t - &T[0]].where & 1) ? "cli" : ((P[&t - &T[0]].where & 2) ? (P[&t - &T[0]].alias ? "config_alias" : "config") : "default");
                vh::J d; d.s("option", nm).s("source", src).s("original", before[nm]).s("reloaded", after[nm]).s("saved_cfg", savedtext.substr(0, 900));
                { std::string a; for (auto& x : args) a += x + " "; d.s("args", a.substr(0, 500)); } d.s("config", cfg.substr(0, 400));
                std::string cls = (t.kind == F32 || t.kind == F64) ? "float_value" : (t.kind == VEC ? "bunch_currents" : "value");
                if (nm == "alpha0") cls = fs_set ? "alpha0_overridden" : "alpha0_in_use";
                if (P[&t - &T[0]].alias && !(P[&t - &T[0]].where & 1)) cls = std::string("alias:") + t.alias;
                M.violation("C13:lost:" + cls, "option value after reloading the saved .cfg differs from the original invocation", d.str());
            }
        }
        // second generation (a third of the cases): the run is repeated from its own saved file with a few options changed on the command
        // line; the configuration is saved again under the same name (as main does when the output is not redirected) and must then
        // describe the *second* invocation
        if (ok2 && c % 3 == 1) {
            std::vector<std::string> args2 = {"--config", saved};
            std::vector<std::string> vec2;
            int nover = (int)r.range(1, 3);
            for (int k = 0; k < nover; k++) {
                const Opt& o = T[r.u64() % T.size()];
                if (!strcmp(o.name, "config") || !strcmp(o.name, "run_anyway") || !strcmp(o.name, "output")) continue;
                bool dup = false; for (auto& a : args2) if (a == std::string("--") + o.name) dup = true;
                for (auto& a : vec2) if (a == std::string("--") + o.name) dup = true;
                if (dup) continue;
                Val v = gen_value(r, o);
                if (o.kind == VEC) { vec2.push_back(std::string("--") + o.name); for (auto& t : v.tokens) vec2.push_back(t); }
                else { args2.push_back(std::string("--") + o.name); args2.push_back(v.token); }
            }
            args2.insert(args2.end(), vec2.begin(), vec2.end());
            ProgramOptions po3; std::string err3;
            if (parse_with(po3, args2, err3)) {
                auto before2 = all_getters(po3, T);
                po3.save(saved);
                ProgramOptions po4; std::string err4;
                bool ok4 = parse_with(po4, {"--config", saved}, err4);
                M.ev("second_generation_cycles");
                if (!ok4) { vh::J d; d.s("error", err4); M.violation("C13:saved_cfg_rejected", "the saved configuration file cannot be parsed back", d.str()); }
                else {
                    auto after2 = all_getters(po4, T);
                    bool fs2 = before2["SynchrotronFrequency"] != rf(0);
                    for (auto& t : T) {
                        std::string nm = t.name;
                        if (nm == "run_anyway" || before2[nm] == after2[nm]) continue;
                        if (nm == "alpha0" && fs2 && after2[nm] == rf(0)) continue;
                        vh::J d; d.s("option", nm).s("second_invocation", before2[nm]).s("reloaded", after2[nm]);
                        { std::string a; for (auto& x : args2) a += x + " "; d.s("args", a.substr(0, 500)); }
                        M.violation("C13:second_generation:stale_cfg", "after a rerun from the saved .cfg with options changed on the command line the .cfg saved again does not describe the second invocation", d.str());
                        break;
                    }
                }
            }
        }
        unlink(cfgname.c_str()); unlink(saved.c_str());
        uint64_t h = vh::hdata(cfg.data(), cfg.size()); for (auto& a : args) h = vh::hdata(a.data(), a.size(), h);
        M.sig(h);
        { vh::J j; std::string a; for (auto& x : args) a += x + " "; j.s("class", "c13").s("args", a.substr(0, 300)).s("config", cfg.substr(0, 200)).s("saved", savedtext.substr(0, 300)); M.sample(j.str()); }
    }
}

int main(int argc, char** argv) {
    M.parse(argc, argv);
    std::string mode = M.opt("--mode", "c20");
    if (mode == "c20") mode_c20(); else mode_c13();
    M.finish();
    return 0;
}
