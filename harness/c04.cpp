// C04 monitor (API complement): one application of the Fokker-Planck map changes the energy
// variance of a Gaussian by 2*e1*(1 - var) (diffusion +2 e1, damping -2 e1 var), per FP type.
#include "maps.hpp"

using namespace vfps;
using namespace vm;
static vh::Monitor M;

int main(int argc, char** argv) {
    M.parse(argc, argv);
    for (long c = M.from; c < M.from + M.count; c++) {
        Rng r(M.seed, c, 401);
        Spec s; s.kind = K_FP;
        // consecutive cases come in pairs on the same mesh size with different extents (one process works through a block of cases:
        // whatever a phase space keeps per mesh size must not survive into the next one)
        { Rng rn(M.seed, c / 2, 402); s.n = (uint32_t)rn.range(64, M.thorough() ? 256 : 160); }
        if (c % 2 == 1) { static const double ext[] = {14, 16, 20, 24}; s.pqsize = ext[(c / 2) % 4]; }
        s.nb = 1;
        // one case in sixteen on a mesh of 300-2100 cells
        if ((c / 8) % 16 == 5) { static const uint32_t big_n[] = {300, 520, 1030, 2100}; s.n = big_n[(c / 128) % 4]; M.ev("cases_on_meshes_beyond_256_cells"); }
        s.fptype = (int)(c % 4); s.deriv = ((c / 4) % 2) ? 3 : 4;
        if (r.chance(0.5)) s.shifty = r.uni(-3, 3);
        double d = s.pqsize / (s.n - 1);
        s.e1 = std::min(r.logu(1e-4, 1e-2), 0.25 * d * d);
        if (c % 5 == 4) s.e1 = r.uni(0.3, 0.45) * d * d;     // upper part of the stable range
        double sy = r.uni(0.5, 0.95), my = r.uni(-0.3, 0.3);   // >= 5.5 sigma from the border rows, which the map zeroes
        M.begin_case(c, s.descr());
        vh::set_grid(s.n, 1);
        Built b = build(s, 1);
        float* din = b.in->getData();
        std::vector<double> xprof(s.n);
        for (uint32_t x = 0; x < s.n; x++) xprof[x] = r.uni(0.1, 1);
        for (uint32_t x = 0; x < s.n; x++) for (uint32_t y = 0; y < s.n; y++) {
            double p = b.in->p(y);
            din[(size_t)x * s.n + y] = (float)(xprof[x] * std::exp(-0.5 * (p - my) * (p - my) / (sy * sy)));
        }
        auto var_of = [&](const float* dd, double& mean) {
            double s0 = 0, s1 = 0, s2 = 0;
            for (uint32_t x = 0; x < s.n; x++) for (uint32_t y = 0; y < s.n; y++) { double v = dd[(size_t)x * s.n + y], p = b.in->p(y); s0 += v; s1 += v * p; s2 += v * p * p; }
            mean = s1 / s0; return s2 / s0 - mean * mean; };
        double m0, m1;
        double v0 = var_of(din, m0);
        b.map->apply();
        double v1 = var_of(b.out->getData(), m1);
        // the phase space's own report of the same quantity (Simpson projections, its own weights and axis) agrees with the plain sums
        {
            b.out->updateXProjection(); b.out->updateYProjection(); b.out->integrate(); b.out->average(0); b.out->average(1); b.out->variance(0); b.out->variance(1);
            const double es = b.out->getEnergySpread()[0];
            M.ev("own_energy_spreads_compared");
            if (!M.within("own_energy_spread_rel_dev", std::fabs(es / std::sqrt(v1) - 1), 2e-3)) {
                vh::J dj; dj.s("spec", s.descr()).n("reported_energy_spread", es).n("energy_spread_of_the_data", std::sqrt(v1)).n("extent", s.pqsize);
                M.violation("C04:fp_step:reported_spread", "the energy spread the phase space reports is not the spread of its data", dj.str());
            }
        }
        double damp = (s.fptype == 1 || s.fptype == 3) ? 1 : 0, diff = (s.fptype == 2 || s.fptype == 3) ? 1 : 0;
        // second moment about zero: d<p^2> = e1*(2*diff - 2*damp*<p^2>); mean: d<p> = -damp*e1*<p>
        double p2_0 = v0 + m0 * m0, p2_1 = v1 + m1 * m1;
        double want = s.e1 * (2 * diff - 2 * damp * p2_0);
        double got = p2_1 - p2_0;
        double tol = s.e1 * (0.02 + 3 * d * d / (sy * sy) + 4 * s.e1) + 2e-6;
        M.ev("fp_applications");
        M.ev(std::string("fptype.") + std::to_string(s.fptype));
        if (!M.within("second_moment_change_err_over_tol", std::fabs(got - want) / tol, 1.0)) {
            vh::J dj; dj.s("spec", s.descr()).n("sigma_p", sy).n("mean_p", my).n("d_p2_got", got).n("d_p2_want", want).n("tol", tol);
            M.violation("C04:fp_step:fptype" + std::to_string(s.fptype) + ":deriv" + std::to_string(s.deriv),
                        "one Fokker-Planck step does not change <p^2> by e1*(2*diffusion - 2*damping*<p^2>)", dj.str());
        }
        double wantm = -damp * s.e1 * m0;
        if (!M.within("mean_change_err_over_tol", std::fabs((m1 - m0) - wantm) / (s.e1 * (0.02 * std::fabs(m0) + 3 * d * d) + 2e-6), 1.0)) {
            vh::J dj; dj.s("spec", s.descr()).n("mean0", m0).n("mean1", m1).n("want_change", wantm);
            M.violation("C04:fp_step:mean:fptype" + std::to_string(s.fptype), "one Fokker-Planck step does not damp the mean energy by e1*<p>", dj.str());
        }
        M.sig(vh::hmix(vh::hmix(s.n * 8 + s.fptype * 2 + (s.deriv == 3), (uint64_t)(int64_t)(s.e1 * 1e12)), (uint64_t)(int64_t)(sy * 1e9)));
        { vh::J j; j.s("spec", s.descr()).n("sigma_p", sy).n("d_p2", got).n("want", want); M.sample(j.str()); }
    }
    M.finish();
    return 0;
}
