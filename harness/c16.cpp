// C16 monitor: impedance models well-formed, passive, correctly scaled and causal; factory = sum.
#include "efield.hpp"
#include "Z/FreeSpaceCSR.hpp"
#include "Z/ParallelPlatesCSR.hpp"
#include "Z/ResistiveWall.hpp"
#include "Z/CollimatorImpedance.hpp"
#include "Z/ConstImpedance.hpp"
#include "Z/ImpedanceFactory.hpp"
#include <fstream>

vh::Monitor M;
typedef std::complex<double> cd;
static const double PI = 3.14159265358979323846;
static const double C0 = 2.99792458e8, MU0 = 4e-7 * PI, Z0V = 376.730313668;

static size_t pick_n(Rng& r) {
    static const size_t special[] = {2, 3, 4, 5, 6, 7, 8, 9, 15, 16, 17, 31, 33, 64, 127, 129, 255, 256, 257, 1000, 1023, 1024, 1025, 2048, 4096, 4097};
    if (r.chance(0.4)) return special[r.range(0, 25)];
    return (size_t)r.range(2, M.thorough() ? 4097 : 1200);
}

static bool wellformed(const Impedance& z, size_t n, const std::string& name, const std::string& descr) {
    bool ok = true;
    const auto& v = z.impedance();
    if (v.size() != n || z.nFreqs() != n) {
        vh::J d; d.s("model", name).i("requested", (long)n).i("size", (long)v.size()).i("nFreqs", (long)z.nFreqs()).s("params", descr);
        M.violation("C16:count:" + name, "impedance does not have exactly the requested number of samples", d.str());
        return false;
    }
    for (size_t i = 0; i < n; i++) {
        if (!std::isfinite(v[i].real()) || !std::isfinite(v[i].imag())) {
            vh::J d; d.s("model", name).i("n", (long)n).i("index", (long)i).s("params", descr);
            M.violation("C16:finite:" + name, "impedance sample is not finite", d.str()); ok = false; break;
        }
        if (i > n / 2 && (v[i].real() != 0 || v[i].imag() != 0)) {
            vh::J d; d.s("model", name).i("n", (long)n).i("index", (long)i).n("re", v[i].real()).s("params", descr);
            M.violation("C16:upper_half_nonzero:" + name, "impedance is not identically zero above half the length", d.str()); ok = false; break;
        }
        if (v[i].real() < 0) {
            vh::J d; d.s("model", name).i("n", (long)n).i("index", (long)i).n("re", v[i].real()).s("params", descr);
            M.violation("C16:passive:" + name, "impedance has negative real part", d.str()); ok = false; break;
        }
    }
    M.ev("samples_checked", (long)n);
    return ok;
}

static void mode_models() {
    for (long c = M.from; c < M.from + M.count; c++) {
        Rng r(M.seed, c, 161);
        int model = (int)(c % 5);
        size_t n = pick_n(r);
        // scale: a few instances of every model with more than 65536 samples (every residue of n/2 modulo 4)
        const bool longn = ((c / 5) % 48 == 7);
        if (longn) { static const size_t L[] = {65537, 65538, 65540, 65542, 70001, 131072, 131078}; n = L[(c / 240) % 7]; M.ev("models_with_more_than_65536_samples"); }
        double fmax = r.logu(1e10, 1e13), frev = r.logu(1e5, 1e7);
        std::ostringstream ds;
        switch (model) {
        case 0: {   // free space CSR:  Z = Z0*Gamma(2/3)/3^(1/3) * e^{i pi/6} * harmonic^(1/3)
            ds << "freespace n=" << n << " fmax=" << fmax << " frev=" << frev;
            M.begin_case(c, ds.str());
            FreeSpaceCSR z(n, (frequency_t)frev, (frequency_t)fmax);
            if (!wellformed(z, n, "freespace", ds.str())) break;
            const double A = Z0V * 1.3541179394264004 / std::cbrt(3.0);
            const double dlt = (double)(float)fmax / (double)(float)frev / (double)(n - 1);
            for (size_t i = 0; i <= n / 2; i++) {
                cd want = std::polar(A * std::cbrt(i * dlt), PI / 6);
                cd got(z[i].real(), z[i].imag());
                double tol = 1e-3 * std::abs(want) + 1e-30;
                if (!M.within("freespace.rel_err", std::abs(got - want) / (std::abs(want) + 1e-300) * (i > 0), 1e-3)) {
                    vh::J d; d.i("n", (long)n).i("index", (long)i).n("re", got.real()).n("im", got.imag()).n("want_re", want.real()).n("want_im", want.imag()).n("tol", tol);
                    M.violation("C16:freespace:value", "free-space CSR impedance differs from Z0*Gamma(2/3)/3^(1/3)*e^{i pi/6}*n^(1/3)", d.str()); break;
                }
                if (i == 0 && (got.real() != 0 || got.imag() != 0)) M.violation("C16:freespace:dc", "free-space CSR impedance at zero frequency is not zero");
            }
            M.ev("model.freespace");
            break; }
        case 1: {   // resistive wall
            double s = r.logu(1e5, 1e8), xi = r.chance(0.5) ? 0 : r.uni(-1, 5), b = r.logu(1e-3, 0.1), L = C0 / frev;
            ds << "resistivewall n=" << n << " fmax=" << fmax << " frev=" << frev << " s=" << s << " xi=" << xi << " b=" << b;
            M.begin_case(c, ds.str());
            ResistiveWall z(n, (frequency_t)frev, (frequency_t)fmax, L, s, xi, b);
            if (!wellformed(z, n, "resistivewall", ds.str())) break;
            const double dlt = (double)(float)fmax / (double)(float)frev / (double)(n - 1);
            for (size_t i = 0; i <= n / 2; i++) {
                double w = 2 * PI * (double)(float)frev * i * dlt;
                double mag = L / (2 * PI * b) * std::sqrt(w * MU0 * (1 + xi) / (2 * s));   // surface impedance / circumference
                cd want = mag * cd(1, -1);
                cd got(z[i].real(), z[i].imag());
                if (!M.within("resistivewall.rel_err", std::abs(got - want) / (std::abs(want) + 1e-300) * (i > 0), 1e-3)) {
                    vh::J d; d.i("n", (long)n).i("index", (long)i).n("re", got.real()).n("im", got.imag()).n("want_re", want.real()).n("want_im", want.imag()).s("params", ds.str());
                    M.violation("C16:resistivewall:value", "resistive wall impedance differs from (1-i)*L/(2 pi b)*sqrt(omega mu/(2 sigma))", d.str()); break;
                }
            }
            M.ev("model.resistivewall");
            break; }
        case 2: {   // collimator
            double outer = r.logu(5e-3, 0.1), inner = outer * r.uni(0.05, 0.95);
            ds << "collimator n=" << n << " outer=" << outer << " inner=" << inner;
            M.begin_case(c, ds.str());
            CollimatorImpedance z(n, (frequency_t)fmax, outer, inner);
            if (!wellformed(z, n, "collimator", ds.str())) break;
            double want = Z0V / PI * std::log(outer / inner);
            for (size_t i = 0; i < n; i++) {
                double w = (i < n / 2) ? want : 0;
                if (!M.within("collimator.abs_err_rel", (std::fabs(z[i].real() - w) + std::fabs(z[i].imag())) / want, 1e-5)) {
                    vh::J d; d.i("n", (long)n).i("index", (long)i).n("re", z[i].real()).n("im", z[i].imag()).n("want", w);
                    M.violation("C16:collimator:value", "collimator impedance is not the constant Z0/pi*ln(outer/inner) below half the length", d.str()); break;
                }
            }
            if (!(want > 0)) M.violation("C16:collimator:sign", "collimator resistance not positive");
            M.ev("model.collimator");
            break; }
        case 3: {   // parallel plates vs free space
            if (n > 700 && !longn) n = 200 + n % 500;
            double g = r.logu(0.01, 1.0), R = r.logu(1, 30);
            double f0 = C0 / (2 * PI * R);
            double nc = std::sqrt(2.0 / 3.0) * std::pow(PI * R / g, 1.5), fc = nc * f0;
            // choose the frequency window so that it spans well below and well above the cutoff
            fmax = fc * r.logu(12, 60) * 2;  // samples go up to fmax/2
            // one case in four: very wide gap (comparable to the bending radius) and frequencies thousands of times the cutoff, where
            // hundreds of plate modes contribute: the sum over modes must not be cut short
            bool far = (c / 6) % 4 == 1 && !longn;
            // a few cases: gap ten times the bending radius at harmonics of 1e5, where more than 65535 plate modes propagate and are summed
            bool extreme = (c / 6) % 16 == 2 && !longn;
            if (extreme) { far = false; n = 8 + n % 4; g = R * r.uni(8, 12); nc = std::sqrt(2.0 / 3.0) * std::pow(PI * R / g, 1.5); fc = nc * f0;
                           fmax = 2 * f0 * r.uni(0.8e5, 1.5e5) * (n - 1.0) / (n / 2); M.ev("pp_cases_with_more_than_65535_modes"); }
            if (far) { n = 48 + n % 32; g = R / r.logu(0.5, 4); nc = std::sqrt(2.0 / 3.0) * std::pow(PI * R / g, 1.5); fc = nc * f0; fmax = fc * r.logu(3000, 20000) * 2; M.ev("pp_far_above_cutoff_cases"); }
            ds << "parallelplates n=" << n << " g=" << g << " R=" << R << " fc=" << fc << " fmax=" << fmax;
            M.begin_case(c, ds.str());
            ParallelPlatesCSR zp(n, (frequency_t)f0, (frequency_t)fmax, g);
            FreeSpaceCSR zf(n, (frequency_t)f0, (frequency_t)fmax);
            if (!wellformed(zp, n, "parallelplates", ds.str())) break;
            long hi = 0, lo = 0;
            for (size_t i = 1; i <= n / 2; i++) {
                double f = i * (double)(float)fmax / (n - 1);
                double ap = std::abs(cd(zp[i].real(), zp[i].imag())), af = std::abs(cd(zf[i].real(), zf[i].imag()));
                if (f >= 5 * fc) {
                    hi++;
                    if (!M.within("parallelplates.abs_ratio_dev_above_5fc", std::fabs(ap / af - 1), 0.01)) {
                        vh::J d; d.i("n", (long)n).i("index", (long)i).n("f_over_fc", f / fc).n("ratio", ap / af).s("params", ds.str());
                        M.violation("C16:parallelplates:highfreq", "parallel-plates impedance does not tend to free space well above the shielding cutoff", d.str()); break;
                    }
                } else if (f <= fc / 4) {
                    lo++;
                    if (!M.within("parallelplates.re_ratio_below_fc4", (double)zp[i].real() / (double)zf[i].real(), 1e-3)) {
                        vh::J d; d.i("n", (long)n).i("index", (long)i).n("f_over_fc", f / fc).n("re_ratio", (double)zp[i].real() / (double)zf[i].real()).s("params", ds.str());
                        M.violation("C16:parallelplates:lowfreq", "parallel-plates impedance is not suppressed well below the shielding cutoff", d.str()); break;
                    }
                }
            }
            M.ev("pp_samples_above_5fc", hi); M.ev("pp_samples_below_fc4", lo);
            if (!longn && !extreme) {
                // the same request again after a request that agrees in length, gap and harmonic step f_max/f0/(n-1) but is for another
                // ring (bending radius scaled, frequencies scaled with it): what a model returns depends on its own arguments only
                // (half of the scale factors are powers of two: both frequencies scale exactly in single precision, the harmonic step is bit-identical)
                const double k = r.chance(0.5) ? std::ldexp(1.0, (int)r.range(1, 6) * (r.chance(0.5) ? 1 : -1)) : (r.chance(0.5) ? r.uni(0.01, 0.5) : r.uni(2, 60));
                // (a request of another length in between, so that the other ring's request is not itself "a repetition" of the first)
                { ParallelPlatesCSR between(n + 1, (frequency_t)f0, (frequency_t)fmax, g); (void)between[0]; }
                { ParallelPlatesCSR other(n, (frequency_t)(f0 * k), (frequency_t)(fmax * k), g); (void)other[0]; }
                ParallelPlatesCSR again(n, (frequency_t)f0, (frequency_t)fmax, g);
                M.ev("pp_requests_repeated_after_a_similar_request");
                for (size_t i = 0; i < n; i++) { const impedance_t u = zp[i], v = again[i]; if (std::memcmp(&u, &v, sizeof(impedance_t)) == 0) continue;
                    vh::J d; d.i("n", (long)n).i("index", (long)i).n("re", again[i].real()).n("first_re", zp[i].real()).n("other_ring_scale", k).s("params", ds.str());
                    M.violation("C16:parallelplates:depends_on_earlier_request", "a parallel-plates request returns other samples when repeated after a similar request for another ring", d.str()); break;
                }
            }
            M.ev("model.parallelplates");
            break; }
        default: {  // constant impedance
            cd Z(r.uni(0, 100), r.uni(-100, 100));
            ds << "const n=" << n;
            M.begin_case(c, ds.str());
            ConstImpedance z(n, (frequency_t)fmax, impedance_t((float)Z.real(), (float)Z.imag()));
            wellformed(z, n, "const", ds.str());
            M.ev("model.const");
            break; }
        }
        M.sig(vh::hmix(vh::hmix(model, n), (uint64_t)(int64_t)(std::log(fmax) * 1e9)));
        { vh::J j; j.s("class", "model").s("params", ds.str()); M.sample(j.str()); }
    }
}

static void mode_factory() {
    for (long c = M.from; c < M.from + M.count; c++) {
        Rng r(M.seed, c, 162);
        size_t n = (size_t)r.range(2, 300);
        int sw = (int)(c % 32);        // all 2^5 switch combinations
        bool gap_on = sw & 1, csr = sw & 2, wall = sw & 4, coll = sw & 8, file = sw & 16;
        double gap = gap_on ? (r.chance(0.5) ? r.uni(0.01, 0.1) : -r.uni(0.01, 0.1)) : 0;
        double fmax = r.logu(1e10, 1e12), R = r.logu(1, 30), frev = r.logu(1e5, 1e7);
        double s = wall ? r.logu(1e5, 1e8) : (r.chance(0.5) ? 0 : -1), xi = r.chance(0.3) ? r.uni(-3, -1.001) : r.uni(-1, 3);
        double radius = std::fabs(gap / 2);
        double inner = coll ? r.uni(0.1, 1.6) * (radius > 0 ? radius : 0.01) : (r.chance(0.5) ? 0 : -0.01);
        std::string fname;
        std::vector<std::complex<float>> fz;
        size_t m = n;
        if (file) {
            fname = "imp_" + std::to_string(c) + ".dat";
            std::ofstream f(fname);
            // four files in ten hold another number of records than requested (shorter, longer, one off): the result still has n samples,
            // the file contributes where it has records (Impedance::operator+= adds over the common length)
            if ((c / 32) % 5 >= 3) { size_t alt[] = {n / 2, n - 1, n + 1, 2 * n + 3, (size_t)1, n / 3 + 1}; m = std::max<size_t>(1, alt[r.range(0, 5)]); M.ev("factory_files_of_another_length"); }
            for (size_t i = 0; i < m; i++) { float re = (float)r.uni(0, 10), im = (float)r.uni(-10, 10); fz.push_back({re, im}); f << i << " " << re << " " << im << "\n"; }
        }
        std::ostringstream ds; ds << "factory n=" << n << " file_records=" << (file ? (long)m : -1) << " gap=" << gap << " csr=" << csr << " s=" << s << " xi=" << xi << " inner=" << inner << " file=" << file;
        M.begin_case(c, ds.str());
        std::shared_ptr<Impedance> z;
        try { z = makeImpedance(n, nullptr, (frequency_t)fmax, R, frev, gap, csr, s, xi, inner, fname); }
        catch (const std::exception&) {
            // a refusal by exception is acceptable for a file that does not fit the request, never for one that does
            if (file && m != n) { M.ev("factory_refused_file_of_another_length"); if (file) unlink(fname.c_str()); continue; }
            throw;
        }
        // expected contributions, each constructed separately
        double f0 = C0 / (2 * PI * R);
        std::vector<cd> want(n, 0); bool any = false;
        if (gap != 0) {
            if (csr) { any = true;
                if (gap > 0) { ParallelPlatesCSR p(n, (frequency_t)f0, (frequency_t)fmax, gap); for (size_t i = 0; i < n; i++) want[i] += cd(p[i].real(), p[i].imag()); }
                else { FreeSpaceCSR p(n, (frequency_t)f0, (frequency_t)fmax); for (size_t i = 0; i < n; i++) want[i] += cd(p[i].real(), p[i].imag()); } }
            if (s > 0 && xi >= -1) { any = true; ResistiveWall p(n, (frequency_t)frev, (frequency_t)fmax, C0 / frev, s, xi, radius); for (size_t i = 0; i < n; i++) want[i] += cd(p[i].real(), p[i].imag()); }
            if (0 < inner && inner < radius) { any = true; CollimatorImpedance p(n, (frequency_t)fmax, radius, inner); for (size_t i = 0; i < n; i++) want[i] += cd(p[i].real(), p[i].imag()); }
        }
        if (file) { any = true; for (size_t i = 0; i < std::min(n, m); i++) want[i] += cd(fz[i].real(), fz[i].imag()); }
        M.ev("factory_calls");
        if (!any) M.ev("factory_nothing_selected");
        if ((z == nullptr) != !any) {
            vh::J d; d.s("params", ds.str()).i("returned_null", z == nullptr).i("expected_null", !any);
            M.violation("C16:factory:null", "factory returns an impedance although nothing is selected, or nothing although something is", d.str());
        } else if (z) {
            double mx = 0; for (auto& w : want) mx = std::max(mx, std::abs(w));
            if (z->nFreqs() != n || z->impedance().size() != n) M.violation("C16:factory:count", "factory result has the wrong number of samples");
            else for (size_t i = 0; i < n; i++) {
                cd got((*z)[i].real(), (*z)[i].imag());
                if (!M.within("factory.err_over_max", std::abs(got - want[i]) / (mx + 1e-300), 1e-5)) {
                    vh::J d; d.s("params", ds.str()).i("index", (long)i).n("re", got.real()).n("want_re", want[i].real()).n("im", got.imag()).n("want_im", want[i].imag());
                    M.violation("C16:factory:sum", "factory result is not the sample-wise sum of the selected contributions", d.str()); break;
                }
            }
        }
        if (file) unlink(fname.c_str());
        M.sig(vh::hmix(vh::hmix(sw, n), (uint64_t)(int64_t)(gap * 1e9)));
        { vh::J j; j.s("class", "factory").s("params", ds.str()).i("switches", sw); M.sample(j.str()); }
    }
}

static void mode_causal() {
    for (long c = M.from; c < M.from + M.count; c++) {
        Rng r(M.seed, c, 163);
        bool fs = (c % 2 == 0);
        Setup s; s.nb = 1; s.buckets = {0}; s.spacing = 0;
        s.n = (uint32_t)(r.chance(0.5) ? 256 : 192); s.N = (s.n == 256) ? 2048 : 1536;
        s.Ib = 1e-3; s.E0 = 1.3e9; s.sE = 4.7e-4; s.dt = 1e-9; s.frev = 9e6; s.revpart = s.frev * s.dt; s.L = 12;
        double fmax = r.logu(1e11, 1e13), frev = r.logu(1e5, 1e7);
        std::unique_ptr<Impedance> z;
        if (fs) z.reset(new FreeSpaceCSR(s.N, (frequency_t)frev, (frequency_t)fmax));
        else z.reset(new ResistiveWall(s.N, (frequency_t)frev, (frequency_t)fmax, C0 / frev, r.logu(1e5, 1e8), 0, r.uni(0.005, 0.05)));
        s.Z = z->impedance();
        double sg = 3.0, mu = r.uni(0.45, 0.55) * s.n;
        std::ostringstream ds; ds << (fs ? "freespace" : "resistivewall") << " probe n=" << s.n << " N=" << s.N << " mu=" << mu;
        M.begin_case(c, ds.str());
        auto ps = make_grid(s);
        boost::multi_array<projection_t, 1> p(boost::extents[s.n]);
        for (uint32_t x = 0; x < s.n; x++) p[x] = (float)std::exp(-0.5 * (x - mu) * (x - mu) / (sg * sg));
        ps->setProjection(0, 0, p);
        auto imp = std::make_shared<Impedance>(s.Z, (frequency_t)fmax);
        ElectricField ef(ps, imp, s.buckets, s.spacing, nullptr, s.frev, (meshaxis_t)s.revpart, s.Ib, s.E0, s.sE, s.dt);
        const meshaxis_t* w = ef.wakePotential();
        double ahead = 0, behind = 0;
        for (uint32_t x = 0; x < s.n; x++) {
            if (x > mu + 4 * sg) ahead += (double)w[x] * w[x];
            if (x < mu - 4 * sg) behind += (double)w[x] * w[x];
        }
        double ratio = ahead / (behind + 1e-300);
        M.ev("probes");
        if (fs) {
            if (!M.within("causal.freespace.behind_over_ahead", 1 / ratio, 1.0 / 50)) {
                vh::J d; d.s("params", ds.str()).n("energy_ahead", ahead).n("energy_behind", behind);
                M.violation("C16:causal:freespace", "free-space CSR wake does not act ahead of the source only", d.str());
            }
        } else if (!M.within("causal.resistivewall.ahead_over_behind", ratio, 1.0 / 50)) {
            vh::J d; d.s("params", ds.str()).n("energy_ahead", ahead).n("energy_behind", behind);
            M.violation("C16:causal:resistivewall", "resistive-wall wake does not act behind the source only", d.str());
        }
        M.sig(vh::hmix(vh::hmix(fs, s.n), (uint64_t)(int64_t)(mu * 1e6)));
        { vh::J j; j.s("class", "causal").s("params", ds.str()).n("ahead_over_behind", ratio); M.sample(j.str()); }
    }
}

int main(int argc, char** argv) {
    M.parse(argc, argv);
    std::string mode = M.opt("--mode", "models");
    if (mode == "models") mode_models(); else if (mode == "factory") mode_factory(); else mode_causal();
    M.finish();
    return 0;
}
